"""Entry point behind ./check (driver, worker, replay, minimise, self-tests)."""

from __future__ import annotations

import argparse
import json
import os
import subprocess
import sys
import time

sys.path.insert(0, os.path.dirname(os.path.abspath(__file__)))

from vpest import common  # noqa: E402
from vpest import framework  # noqa: E402


def _reexec_with_hashseed(hs: str) -> None:
    """Replays and minimisation run under the hash seed the run was executed with."""
    if os.environ.get("PYTHONHASHSEED") != hs:
        env = dict(os.environ)
        env["PYTHONHASHSEED"] = hs
        env["PYTHONDONTWRITEBYTECODE"] = "1"
        os.execve(common.PYTHON, [common.PYTHON, "-B", *sys.argv], env)


# ------------------------------------------------------------------ minimise / replay


def minimise(check, plan, signature, ctx, budget=400, wall_s=None):
    if wall_s is None:
        wall_s = float(os.environ.get("VERIF_MINIMISE_WALL_S") or 90.0)
    best = plan
    tries = 0
    improved = True
    t_end = time.time() + wall_s

    while improved and tries < budget and time.time() < t_end:
        improved = False
        for cand in check.shrink_candidates(best):
            tries += 1
            try:
                v = check.check_plan(cand, ctx)
            except framework.ChildError:
                v = None
            if v is not None and v["signature"] == signature:
                best = v.get("plan", cand)
                improved = True
                break
            if tries >= budget or time.time() > t_end:
                break
    return best, tries


def cmd_minimise(check_id, src, dst):
    plan = json.load(open(src))
    _reexec_with_hashseed(str(plan.get("hashseed", 0)))
    common.import_pest()
    check = framework.get_check(check_id)
    ctx = check.make_ctx("quick")
    v = check.check_plan(plan, ctx)
    if v is None:
        json.dump({"reproduced": False}, open(dst, "w"))
        return 0
    sig = plan.get("violation", {}).get("signature") or v["signature"]
    if v["signature"] != sig:
        sig = v["signature"]
    best, tries = minimise(check, v.get("plan", plan), sig, ctx)
    v2 = check.check_plan(best, ctx)
    out = dict(best)
    out["hashseed"] = plan.get("hashseed", 0)
    out["violation"] = {"signature": v2["signature"], "detail": v2.get("detail"), "step": v2.get("step"), "op": v2.get("op")}
    out["minimisation"] = {"candidates_tried": tries, "size_before": check.plan_size(plan), "size_after": check.plan_size(best)}
    out["found"] = plan.get("found", {})
    json.dump({"reproduced": True, "plan": out}, open(dst, "w"), default=repr)
    return 0


def cmd_replay(check_id, path, quiet=False):
    plan = json.load(open(path))
    _reexec_with_hashseed(str(plan.get("hashseed", 0)))
    common.import_pest()
    check = framework.get_check(check_id)
    ctx = check.make_ctx("quick")
    v = check.check_plan(plan, ctx)
    if v is None:
        print(f"replay {path}: property held (no violation reproduced)")
        return common.EXIT_OK
    print(f"replay {path}: {v['signature']}")
    print("  " + check.describe(v.get("plan", plan)))
    print("  detail: " + json.dumps(v.get("detail"), default=repr)[:1500])
    known = common.known_signature_map(check_id)
    if v["signature"] in known:
        print(f"KNOWN-FINDING: property={check_id} {known[v['signature']]['what']}")
        return common.EXIT_OK
    print(f"VIOLATION property={check_id} replay={path}")
    return common.EXIT_VIOLATION


# ------------------------------------------------------------------------- run a check


def run_check(check_id, tier, seed, W, n_jobs_override=None, budget_override=None):
    t0 = time.time()
    common.import_pest()
    check = framework.get_check(check_id)
    params = check.tier_params(tier)
    n_jobs = params["n_jobs"] if n_jobs_override is None else n_jobs_override
    budget = params["budget_s"] if budget_override is None else budget_override
    print(f"[{check_id}] tier={tier} VERIF_SEED={seed} workers={W} jobs={'time-bounded' if n_jobs < 0 else n_jobs} budget={budget:.0f}s pest={common.PEST_SRC}", flush=True)
    procs, deadline = framework.spawn_workers(check_id, seed, tier, W, n_jobs, budget)
    acc, viols, errors, jobs = framework.collect_workers(procs, deadline + params.get("grace_s", 600.0))
    search_wall = time.time() - t0
    if hasattr(check, "driver_violations"):
        viols.extend(check.driver_violations(acc))
    acc.pop("refkeys", None)

    # ---- violations: group by signature, minimise, confirm, classify
    exit_code = common.EXIT_OK
    known = common.known_signature_map(check_id)
    by_sig: dict[str, list[dict]] = {}
    for v in viols:
        by_sig.setdefault(v["signature"], []).append(v)
    reported = []
    unreproducible = []
    known_hit = {}
    # every distinct signature is minimised and replayed twice before it is printed; that is
    # minutes per signature for a C15 sweep or marathon plan, so the number processed is capped
    # (all of them are listed in the evidence)
    max_sigs = common.env_int("VERIF_MAX_SIGNATURES", 6)
    for n_sig, (sig, vs) in enumerate(sorted(by_sig.items())):
        if n_sig >= max_sigs:
            print(f"[{check_id}] ... {len(by_sig) - max_sigs} more distinct violation signatures not processed: {sorted(by_sig)[max_sigs:][:12]}")
            break
        vs.sort(key=lambda v: check.plan_size(v["plan"]))
        v = vs[0]
        plan = dict(v["plan"])
        plan["violation"] = {"signature": sig, "detail": v.get("detail")}
        plan["found"] = {"verif_seed": seed, "job": v.get("_k"), "tier": tier, "occurrences_this_run": len(vs)}
        plan.setdefault("hashseed", v.get("hashseed", (v.get("_k", 0) % W) % 4))
        name = f"{seed}-{n_sig}"
        raw_path = common.write_replay(check_id, name + "-raw", plan)
        min_out = os.path.join(common.REPLAY_DIR, f"{check_id}-{name}-min.out.json")
        try:
            subprocess.run([common.PYTHON, "-B", common.MAIN, check_id, "--minimise", raw_path, min_out], timeout=900, check=False, capture_output=True)
            m = json.load(open(min_out))
        except (subprocess.TimeoutExpired, FileNotFoundError, ValueError) as e:
            m = {"reproduced": None, "error": repr(e)}
        finally:
            if os.path.exists(min_out):
                os.remove(min_out)
        if not m.get("reproduced"):
            unreproducible.append((sig, raw_path, m))
            continue
        path = common.write_replay(check_id, name, m["plan"])
        # a violation is printed only after its minimised replay reproduced it twice in fresh processes
        oks = 0
        for _ in range(2):
            r = subprocess.run([common.PYTHON, "-B", common.MAIN, check_id, "--replay", path], capture_output=True, text=True, timeout=600, check=False)
            if f"replay {path}: {m['plan']['violation']['signature']}" in r.stdout:
                oks += 1
        if oks < 2:
            unreproducible.append((sig, path, {"replays_ok": oks}))
            continue
        msig = m["plan"]["violation"]["signature"]
        if msig in known:
            known_hit[msig] = known[msig]
            print(f"KNOWN-FINDING: property={check_id} {known[msig]['what']}  [replay={path}]")
            continue
        print(f"[{check_id}] violation {msig} ({len(vs)} occurrences), minimised {m['plan']['minimisation']}:")
        print("    " + check.describe(m["plan"]))
        print("    detail: " + json.dumps(m["plan"]["violation"].get("detail"), default=repr)[:1200])
        print(f"VIOLATION property={check_id} replay={path}")
        reported.append({"signature": msig, "replay": path})
        exit_code = common.EXIT_VIOLATION

    if hasattr(check, "vacuity") and jobs:
        # a check that silently stopped observing (a tap that is no longer called, an oracle
        # that skipped everything) must not report "held"
        errors.extend(check.vacuity(acc))
    for sig, path, m in unreproducible:
        print(f"[{check_id}] UNREPRODUCIBLE (harness error, not a violation): {sig} plan={path} {m}")
    for e in errors[:20]:
        print(f"[{check_id}] HARNESS-ERROR: {e}")
    if (unreproducible or errors) and exit_code == common.EXIT_OK:
        exit_code = common.EXIT_HARNESS
    if jobs == 0 and exit_code == common.EXIT_OK:
        print(f"[{check_id}] HARNESS-ERROR: no job completed")
        exit_code = common.EXIT_HARNESS

    wall = time.time() - t0
    cov = check.evidence(acc, tier)
    cov["jobs_completed"] = jobs
    cov["throughput"] = {
        "search_wall_s": round(search_wall, 2),
        "evaluations_per_hour": int(cov["evaluations"] / max(search_wall, 1e-6) * 3600),
        "seeds": f"VERIF_SEED={seed}; every job k derives its own PRNG value SHA-256(check, VERIF_SEED, k); {jobs} job PRNG values this run",
        "workers": W,
    }
    cov["violation_signatures"] = sorted(by_sig)
    cov["known_findings_hit"] = sorted(known_hit)
    cov["harness_errors"] = len(errors) + len(unreproducible)
    ev = {
        "property_id": check_id,
        "tier": tier,
        "seed": seed,
        "level": "exploration",
        "coverage": cov,
        "assumptions": check.assumptions() if hasattr(check, "assumptions") else [],
        "wall_s": round(wall, 2),
        "violations": len(reported),
    }
    path = common.write_evidence(check_id, ev)
    print(f"[{check_id}] evaluations={cov['evaluations']} distinct_nontrivial={cov['distinct_nontrivial']} wall={wall:.1f}s evidence={path} exit={exit_code}")
    return exit_code


# --------------------------------------------------------------------------------- main


def main(argv):
    if argv and argv[0] == "--worker":
        return framework.worker_main(argv[1:])
    if argv and argv[0].startswith("selftest"):
        from vpest import selftest  # noqa: PLC0415

        return selftest.main(argv)
    ap = argparse.ArgumentParser(prog="check")
    ap.add_argument("check_id")
    ap.add_argument("--tier", default=os.environ.get("VERIF_TIER") or "quick", choices=["quick", "thorough"])
    ap.add_argument("--seed", type=int, default=common.env_int("VERIF_SEED", 0))
    ap.add_argument("--workers", type=int, default=common.env_int("VERIF_WORKERS", 16))
    ap.add_argument("--jobs", type=int, default=None)
    ap.add_argument("--budget", type=float, default=None)
    ap.add_argument("--replay")
    ap.add_argument("--minimise", nargs=2)
    a = ap.parse_args(argv)
    if a.replay:
        return cmd_replay(a.check_id, a.replay)
    if a.minimise:
        return cmd_minimise(a.check_id, *a.minimise)
    W = max(4, (a.workers // 4) * 4)  # run k executes under PYTHONHASHSEED k mod 4 at every worker count
    return run_check(a.check_id, a.tier, a.seed, W, a.jobs, a.budget)


if __name__ == "__main__":
    sys.exit(main(sys.argv[1:]))
