"""Grammar / input pool for the C15 simulator.

Every pool entry: {"text": grammar, "calls": [(rule, input), ...]} with inputs that
succeed and inputs that fail at different positions, chosen so that leaked state is
*observable* (changes a tree, a failure position or an expected/unexpected set).
"""

from __future__ import annotations

import os
import random

from . import common

P_LEAK = r'''
WHITESPACE = _{ " " }
leak_ok = { PUSH("a") ~ "b" }
leak    = { PUSH("a") ~ "!" }
leak2   = { PUSH("a") ~ PUSH("b") ~ "!" }
d    = { DROP ~ "x" }
pk   = { PEEK ~ "x" }
pall = { PEEK_ALL ~ "x" }
pop  = { POP ~ "x" }
seq  = { "a" ~ "b" }
seq3 = { "a" ~ "b" ~ "c" }
far  = { "a" ~ "a" ~ "a" ~ "a" ~ "!" }
near = { "z" }
first = { "q" }
alt  = { "a" ~ "a" ~ "x" | "a" ~ "y" | "b" }
v    = { "(" ~ v ~ ")" | "x" }
at   = @{ "[" ~ v ~ "]" }
tg   = { #tt = ("[" ~ v ~ "]") }
tagged = { #aa = seq | #bb = near }
np   = { !("[" ~ v ~ "]") ~ ANY }
nn   = { !near ~ !first ~ ANY }
'''


def deep(k, open_="[", close="]"):
    return open_ + "(" * k + "x" + ")" * k + close


P_LEAK_CALLS = [
    ("leak_ok", "ab"), ("leak_ok", "a b"), ("leak", "ab"), ("leak", "a!"), ("leak2", "ab!"), ("leak2", "abx"),
    ("d", "x"), ("pk", "ax"), ("pk", "x"), ("pall", "x"), ("pall", "ax"), ("pop", "ax"), ("pop", "x"),
    ("seq", "a b"), ("seq", "ab"), ("seq", "a c"), ("seq3", "a b  c"), ("seq3", "a bc!"),
    ("far", "aaaa?"), ("far", "a a a a !"), ("near", "y"), ("near", "z"), ("first", "p"), ("first", ""),
    ("alt", "aax"), ("alt", "ay"), ("alt", "aaz"), ("alt", "c"),
    ("v", "((x))"), ("v", "((x)"), ("at", "[(x)]"), ("at", "[ (x) ]"), ("at", "[(x]"),
    ("tg", "[(x)]"), ("tg", "[ ( x ) ]"), ("tg", "[(y)]"), ("tagged", "a b"), ("tagged", "z"), ("tagged", "q"),
    ("np", "z"), ("np", "[x]"), ("np", ""), ("nn", "a"), ("nn", "z"), ("nn", "q"),
]
P_LEAK_DEEP = [("at", deep(60)), ("tg", deep(60)), ("np", deep(60)), ("v", deep(80, "(", ")")), ("seq", "a" + " " * 40 + "b")]

P_LEAK2 = r'''
WHITESPACE = _{ "\t" | NEWLINE }
seq   = { "b" ~ "a" }
d     = { "d"+ }
first = { ASCII_DIGIT ~ first? }
near  = { "n" ~ "e" ~ "a" ~ "r" }
alt   = { "b" | "a" ~ "b" }
v     = { "<" ~ v ~ ">" | "y" }
'''
P_LEAK2_CALLS = [("seq", "b\ta"), ("seq", "b a"), ("seq", "a b"), ("d", "ddd"), ("d", "x"), ("first", "123"), ("first", "q"), ("near", "near"), ("near", "neat"), ("alt", "ab"), ("alt", "aa"), ("v", "<<y>>"), ("v", "<<y>")]

P_BUILTIN = r'''
WHITESPACE = _{ " " | NEWLINE }
word  = { ASCII_ALPHA+ }
num   = { ASCII_DIGIT+ ~ ("." ~ ASCII_DIGIT+)? }
hex   = { "0x" ~ ASCII_HEX_DIGIT+ }
line  = ${ word ~ (" " ~ (num | hex))* ~ NEWLINE }
nd    = { (!ASCII_DIGIT ~ ANY)+ }
up    = @{ UPPERCASE_LETTER ~ LOWERCASE_LETTER* }
anyline = @{ (!NEWLINE ~ ANY)* ~ NEWLINE }
alnum = @{ ASCII_ALPHANUMERIC+ }
r     = { "x" ~ ASCII_ALPHA ~ NEWLINE }
bin   = { ASCII_BIN_DIGIT+ ~ ASCII_OCT_DIGIT* ~ ASCII_NONZERO_DIGIT? }
id    = @{ (ASCII_ALPHA | "_") ~ (ASCII_ALPHANUMERIC | "_")* }
doc   = { SOI ~ (id ~ "=" ~ (num | hex | id))* ~ EOI }
greek = { GREEK+ ~ NUMBER* }
kw    = ${ ("ab" | "a" | "abc" | "b" | "ba") ~ "c"? }
kws   = { (kw ~ ",")* ~ kw }
op    = { "===" | "==" | "=>" | "=" | "<=" | "<" }
cmp   = { id ~ op ~ (num | id) }
rg    = { 'a'..'c' ~ 'x'..'z' ~ ('0'..'4')? }
mix   = { "ab" | "a" | ASCII_DIGIT+ | "zz" | "z" }
mixr  = { ("x" | "y" | 'a'..'c' | word | "_") ~ "!" }
'''
P_BUILTIN_CALLS = [
    ("mix", "x"), ("mix", "a"), ("mix", "77"), ("mix", "zz"), ("mix", ""), ("mixr", "x!"), ("mixr", "b!"), ("mixr", "hello!"), ("mixr", "_!"), ("mixr", "?"), ("mixr", "x"),
    ("r", "x1"), ("r", "xa\n"), ("r", "xa"), ("word", "abc"), ("word", "1"), ("word", ""), ("num", "12.5"), ("num", "12."), ("num", "x"),
    ("hex", "0xfg"), ("hex", "0xg"), ("line", "ab 12 0x1f\n"), ("line", "ab 12 zz\n"), ("line", "ab"), ("nd", "ab1"), ("nd", "1"),
    ("up", "Ab"), ("up", "ab"), ("up", "ÉÀ"), ("anyline", "abc\n"), ("anyline", "abc"), ("alnum", "a1_"), ("alnum", "_"),
    ("bin", "0179"), ("bin", "2"), ("id", "_a1-"), ("id", "1a"), ("doc", "a = 1 b=0x1f c = d"), ("doc", "a = 1 b=0x"), ("doc", "a = \n ?"),
    ("greek", "αβγ12"), ("greek", "abc"), ("kw", "abc"), ("kw", "ab"), ("kw", "bac"), ("kw", "c"), ("kws", "ab, a ,abc,bac"), ("kws", "abcc"), ("op", "==="), ("op", "<="), ("op", "=>"), ("cmp", "a === b"), ("cmp", "a <= 1"), ("cmp", "a == = b"), ("rg", "ax"), ("rg", "a1"), ("rg", "1"), ("rg", "cz4"), ("rg", "cz5x"),
    # runs of two and more implicit-trivia characters
    ("doc", "a  =  1   b = \n\n 0x1f"), ("cmp", "a   ===  b"), ("kws", "ab ,  a"), ("num", "1  .5"),
]

# twin of P-builtin: same rule names, same literal/range SETS in every choice, other order
P_BUILTIN2 = r'''
WHITESPACE = _{ NEWLINE | " " }
word  = { ASCII_ALPHA+ }
num   = { ASCII_DIGIT+ ~ ("." ~ ASCII_DIGIT+)? }
hex   = { "0x" ~ ASCII_HEX_DIGIT+ }
kw    = ${ ("a" | "b" | "ba" | "abc" | "ab") ~ "c"? }
kws   = { (kw ~ ",")* ~ kw }
id    = @{ ("_" | ASCII_ALPHA) ~ ("_" | ASCII_ALPHANUMERIC)* }
op    = { "=" | "==" | "===" | "<" | "<=" | "=>" }
cmp   = { id ~ op ~ (num | id) }
rg    = { #lo='a'..'c' ~ #hi='x'..'z' ~ (#dg='0'..'4')? }
mix   = { "a" | "ab" | ASCII_DIGIT+ | "z" | "zz" }
mixr  = { ("y" | "x" | 'a'..'c' | word | "_") ~ "!" }
'''
P_BUILTIN2_CALLS = [("mix", "x"), ("mix", "ab"), ("mix", "77"), ("mix", "zz"), ("mixr", "x!"), ("mixr", "b!"), ("mixr", "hello!"), ("mixr", "?"),("kw", "abc"), ("kw", "ab"), ("kw", "bac"), ("kw", "c"), ("kws", "ab, a ,abc,bac"), ("kws", "abcc"), ("op", "==="), ("op", "<="), ("op", "=>"), ("cmp", "a === b"), ("cmp", "a <= 1"), ("cmp", "a == = b"), ("id", "_a1-"), ("word", "abc"), ("num", "12."), ("hex", "0xfg"), ("rg", "ax"), ("rg", "a1"), ("rg", "1"), ("rg", "cz4"), ("rg", "cz5x")]

P_TWIN1 = r'''
WHITESPACE = _{ " " }
item = { ASCII_DIGIT+ }
sep  = _{ "," | ";" }
list = { item ~ (sep ~ item)* }
top  = { SOI ~ list ~ EOI }
'''
P_TWIN1_CALLS = [("top", "1, 2;3"), ("top", "1, x"), ("top", "1 2"), ("list", "12"), ("list", ";"), ("item", "7"), ("item", "a")]
P_TWIN2 = r'''
WHITESPACE = _{ "\t" | NEWLINE }
item = { ASCII_ALPHA+ }
sep  = _{ ";" | "|" }
list = { item ~ (sep ~ item)* }
top  = { SOI ~ list ~ EOI }
'''
P_TWIN2_CALLS = [("top", "a;b|c"), ("top", "a,b"), ("top", "a\t;\nb"), ("list", "ab"), ("list", "1"), ("item", "x"), ("item", "7")]

BUNDLED_CALLS = {
    "tests/grammars/json.pest": [("json", '{"a": [1, 2.5e3, true, null, "x\\n"], "b": {}}'), ("json", '{"a": [1, 2,]}'), ("json", "[1, 2"), ("json", '{"a" 1}'), ("value", "-0.5"), ("value", "tru"), ("string", '"a\\u00e9"'), ("string", '"a')],
    "examples/json/json.pest": [("json", '{"k":   [1,  -2.0,\n\n false], "s": "q"}'), ("json", '{"k": [1, -2.0, false], "s": "q"}'), ("json", '{"k": }'), ("json", "[1 2]"), ("value", "null"), ("number", "1e"), ("string", '"x')],
    "examples/csv/csv.pest": [("file", "1,2.5\n-3,4\n"), ("file", "1,2\n3,,4\n"), ("file", "1,2"), ("record", "1,2,3"), ("field", "a")],
    "examples/ini/ini.pest": [("file", "[sec]\nname = val\n\nk=v\n"), ("file", "[sec\nk=v\n"), ("file", "k = v"), ("property", "a=b"), ("section", "[a b]")],
    "examples/calculator/calculator.pest": [("program", "1  +  2 \t* 3"), ("program", "1 + 2 * 3"), ("program", "-x! ^ (2 - 1)"), ("program", "(1 + 2"), ("program", "1 +"), ("program", "01"), ("expr", "a*b"), ("int", "007")],
    "examples/calculator/grammar_encoded_prec.pest": [("program", "1 + 2 * 3"), ("program", "-x! ^ (2 - 1)"), ("program", "(1 + 2"), ("program", "1 + * 2"), ("expr", "a/b-c")],
    "tests/grammars/lists.pest": [("lists", "- a\n- b"), ("lists", "- a\n  - b\n  - c\n- d"), ("lists", "- a\n  - b\n - c"), ("lists", "a"), ("lists", "- a\n    - b\n  - c")],
    "tests/grammars/surround.pest": [("Quote", "(abc)"), ("Quote", "<a(b>"), ("Quote", "(abc>"), ("Quote", "abc")],
    "tests/grammars/reporting.pest": [("choices", "x"), ("choices_no_progress", "x"), ("choices_a_progress", "ab"), ("choices_b_progress", "ba"), ("level1", "x"), ("negative", "x"), ("negative_match", "a"), ("mixed", "x"), ("mixed_progress", "b"), ("choices", "b")],
    "tests/grammars/http.pest": [("http", "GET /x HTTP/1.1\nHost: a\n\n"), ("http", "GET /x HTTP/1.1\nHost a\n\n"), ("http", "PATCH / HTTP/1.0\n\n"), ("request_line", "PUT  /y  HTTP/2\n"), ("header", "A: b\n"), ("header", ": b\n")],
    "tests/grammars/toml.pest": [("toml", 'a = 1\n[t]\nb = "x" # c\nd = [1, 2]\n'), ("toml", "a = \n"), ("toml", "[t\n"), ("value", "1979-05-27T07:32:00Z"), ("value", "1.5e"), ("pair", 'k = {a = 1, b = "s"}')],
    "tests/grammars/sql.pest": [("Command", "select a from t where a = 1"), ("Command", "select a, b from t join u on t.a = u.a"), ("Command", "select from"), ("Command", "drop table t"), ("Command", "insert into t values (1, 'x')"), ("Command", "create user u")],
    "examples/jsonpath/jsonpath.pest": [("jsonpath", "$.a[0]['b'][1:2:3][?@.x > 1 && !@.y]"), ("jsonpath", "$..a[*]"), ("jsonpath", "$.a["), ("jsonpath", "$[?count(@.a) == 2]"), ("jsonpath", "a"), ("jsonpath", "$['\\u00e9']")],
}


def repo_root():
    root = os.path.dirname(common.PEST_SRC)
    if os.path.isdir(os.path.join(root, "tests", "grammars")):
        return root
    return "/repo"


BUNDLED_DEEP = {
    "tests/grammars/json.pest": [("json", "[" * 70 + "1" + "]" * 70), ("json", '{"a":' * 50 + "1" + "}" * 50)],
    "examples/json/json.pest": [("json", "[" * 70 + "1" + "]" * 70)],
    "examples/calculator/calculator.pest": [("program", "(" * 60 + "1" + ")" * 60), ("program", "-" * 5 + "(" * 40 + "x" + ")" * 40 + "!")],
    "examples/calculator/grammar_encoded_prec.pest": [("program", "(" * 22 + "1" + ")" * 22)],
    "tests/grammars/toml.pest": [("toml", "a = " + "[" * 60 + "1" + "]" * 60 + "\n")],
    "examples/jsonpath/jsonpath.pest": [("jsonpath", "$[?" + "(" * 28 + "@.a" + ")" * 28 + "]")],
}

_BUNDLED_CACHE: dict | None = None


def bundled():
    global _BUNDLED_CACHE
    if _BUNDLED_CACHE is None:
        out = {}
        root = repo_root()
        for rel, calls in BUNDLED_CALLS.items():
            p = os.path.join(root, rel)
            try:
                with open(p, encoding="utf-8") as f:
                    out["B:" + rel.rsplit("/", 1)[-1].replace(".pest", "") + ("@ex" if rel.startswith("examples") else "")] = {"text": f.read(), "calls": list(calls), "deep": list(BUNDLED_DEEP.get(rel, ()))}
            except OSError:
                continue
        _BUNDLED_CACHE = out
    return _BUNDLED_CACHE


# rule MODIFIERS delegating to each other through bare rule references: what an atomic rule
# does with its inner pairs depends on the modifier of the rule its body names (and, through a
# silent rule, of the rule THAT names) -- resolved per parser, and differently with and without
# the optimizer's inlining, so anything resolved once and kept on a shared Rule object shows
P_MOD = r"""
WHITESPACE = _{ " " }
d    = { "x" }
cc   = ${ d ~ d }
nn   = !{ d ~ d }
pl   = { d ~ d }
sb   = _{ cc }
sn   = _{ nn }
sp   = _{ pl }
a_sb = @{ sb }
a_sn = @{ sn }
a_sp = @{ sp }
a_cc = @{ cc }
a_nn = @{ nn }
a_pl = @{ pl }
c_sb = ${ sb }
c_pl = ${ pl }
c_nn = ${ nn }
n_at = !{ a_pl ~ a_cc }
top  = { a_sb ~ a_sn | c_sb ~ n_at }
"""
P_MOD_CALLS = [(r, t) for r in ("a_sb", "a_sn", "a_sp", "a_cc", "a_nn", "c_sb", "c_nn", "n_at", "top") for t in ("xx", "x x", "xxxx", "xx x x")] + [("a_pl", "xx"), ("c_pl", "xx"), ("top", "xx xx"), ("n_at", "xx xx")]

# case-insensitive literals whose matching depends on HOW the pattern is compiled (simple vs
# full case folding: U+00DF / "SS", the fi ligature, title-case digraphs, the Kelvin sign) and
# literals that are special inside a regex set -- sensitive to process-wide switches of the
# `regex` module and to anything that re-compiles or re-escapes a pattern
P_FOLD = r"""
WHITESPACE = _{ " " }
ci   = { ^"maß" ~ ASCII_DIGIT? }
ci2  = { ^"ﬁn" | ^"straße" | ^"ǆ" }
cis  = { (^"ǆ" | ^"i̇" | ^"k")+ }
pun  = { ("[" | "]" | "-" | "^" | "\\" | "." | "a")+ }
unit = ${ ^"maß" ~ " " ~ ASCII_DIGIT }
kel  = { ^"\u{212a}" ~ 'a'..'z'* }
"""
P_FOLD_CALLS = [("ci", "MASS3"), ("ci", "maß 3"), ("ci", "MAß"), ("ci", "mas"), ("ci2", "FIN"), ("ci2", "ﬁN"), ("ci2", "STRASSE"), ("ci2", "Straße"), ("ci2", "ǅ"), ("ci2", "Ǆ"),
                ("cis", "Ǆǅk"), ("cis", "İ"), ("cis", "i̇K"), ("cis", "K"), ("pun", "[a-]^\\."), ("pun", "b"), ("unit", "MASS 3"), ("unit", "maß 3"), ("unit", "Maß3"), ("kel", "kelvin"), ("kel", "Kx")]

# RECURSIVE rules around stack operations, with several entry rules into every cycle: what an
# implementation works out lazily about a rule or node ("pure", "cannot touch the stack", a
# resolved delegate) depends on where the analysis entered the cycle -- i.e. on which start
# rule was used FIRST on the object -- unless it is a true fixed point
P_CYC = r"""
quote  = { "'" | "\"" }
word   = { ASCII_ALPHA+ }
raw    = { (ASCII_ALPHANUMERIC | "'" | "\"")+ }
value  = { quoted | raw }
quoted = { label? ~ PUSH(quote) ~ word ~ POP }
label  = { "[" ~ value ~ "]" }
field  = { quoted | "-" }
line   = { SOI ~ value ~ ("=" ~ value)* ~ PEEK_ALL ~ EOI }
blk    = { PUSH("{") ~ item* ~ DROP ~ "}" }
item   = { blk | tok ~ ";"? }
tok    = { !("{" | "}") ~ ASCII_ALPHANUMERIC+ }
ent    = { item ~ !PEEK ~ EOI | blk ~ "!" }
chk    = { &(blk ~ EOI) ~ item | PUSH("x") ~ tok ~ POP }
deep   = { (PUSH("<") ~ deep ~ ">" ~ DROP)? ~ tail? }
tail   = { "." ~ (PEEK | "e") }
"""
P_CYC_CALLS = [("line", "'ab'=cd"), ("line", "'ab=cd"), ("line", "['x']\"q\"=z"), ("line", "[\"x]'q'"), ("field", "-"), ("field", "'a'"), ("field", "['a']'b'"), ("field", "'a"), ("value", "'ab"), ("value", "x"),
               ("label", "['a']"), ("label", "['a]"), ("blk", "{a;{b}c}"), ("blk", "{a;{b}"), ("item", "{x}"), ("item", "x;"), ("ent", "{a}"), ("ent", "{a}!"), ("ent", "a}"), ("chk", "{a}"), ("chk", "xax"), ("chk", "{a"),
               ("deep", "<<.e>>"), ("deep", "<<.<>>"), ("deep", "<.<>"), ("deep", ".e"), ("tail", ".e"), ("tail", ".x")]

# the "read up to a terminator" idiom, (!X ~ ANY)*, which the optimizer's skip pass rewrites
# into a search: several terminators per rule, inputs with and without each of them -- every
# call goes through the rewritten node, so per-node scratch of that search shows in any pair
P_SKIP = r"""
chunk = { (!("<" | "&") ~ ANY)* }
line  = { (!NEWLINE ~ ANY)* ~ NEWLINE? }
upto  = { (!("--" | ";" | "\n") ~ ANY)+ ~ ("--" | ";")? }
cmt   = { "#" ~ (!NEWLINE ~ ANY)* }
doc   = { (chunk ~ ("<" ~ (!">" ~ ANY)* ~ ">" | "&" ~ ASCII_ALPHA+ ~ ";"))* ~ chunk }
"""
P_SKIP_CALLS = [("chunk", "ab<cd>&ef"), ("chunk", "abcdef"), ("chunk", "ab&"), ("chunk", "<"), ("line", "abc\n"), ("line", "abc"), ("line", "ab\rc"), ("line", "a\r\nb"),
                ("upto", "a--b"), ("upto", "a;b"), ("upto", "ab"), ("upto", "a-b\nc"), ("cmt", "# x\n"), ("cmt", "# x"), ("cmt", "x"),
                ("doc", "ab<cd>&ef;gh"), ("doc", "ab<cd"), ("doc", "x&y"), ("doc", "plain"), ("doc", "<a><b>&c;")]

FIXED = {
    # "overflow": inputs nested far beyond the interpreter's recursion budget -- the isolated
    # reference is RecursionError, and stays so whatever happened before
    "P-leak": {"text": P_LEAK, "calls": P_LEAK_CALLS, "deep": P_LEAK_DEEP, "overflow": [("v", deep(700, "(", ")")), ("at", deep(700)), ("np", deep(700))]},
    "P-leak2": {"text": P_LEAK2, "calls": P_LEAK2_CALLS, "deep": [("v", "<" * 80 + "y" + ">" * 80), ("first", "1" * 120)], "overflow": [("v", "<" * 700 + "y" + ">" * 700), ("first", "1" * 1500)]},
    "P-builtin": {"text": P_BUILTIN, "calls": P_BUILTIN_CALLS},
    "P-builtin2": {"text": P_BUILTIN2, "calls": P_BUILTIN2_CALLS},
    "P-twin1": {"text": P_TWIN1, "calls": P_TWIN1_CALLS},
    "P-twin2": {"text": P_TWIN2, "calls": P_TWIN2_CALLS},
    "P-mod": {"text": P_MOD, "calls": P_MOD_CALLS},
    "P-fold": {"text": P_FOLD, "calls": P_FOLD_CALLS},
    "P-cyc": {"text": P_CYC, "calls": P_CYC_CALLS},
    "P-skip": {"text": P_SKIP, "calls": P_SKIP_CALLS},
}

# ------------------------------------------------------------------- random grammars

_BUILTINS = ("ASCII_DIGIT", "ASCII_ALPHA", "ASCII_ALPHANUMERIC", "ASCII_HEX_DIGIT", "NEWLINE", "ANY", "ASCII_ALPHA_LOWER", "ASCII_ALPHA_UPPER", "LETTER", "NUMBER")
_ALPHABET = "ab1 \nX_"


def random_grammar(rng: random.Random, reverse_choices: bool = False):
    """A small terminating grammar over literals and built-ins, with inputs.

    With reverse_choices the same PRNG value yields the TWIN grammar: same rule names, the
    same alternatives in every choice, in reverse order."""
    lits = ['"a"', '"b"', '"ab"', '"1"', '"_"', "'a'..'c'", '^"x"']
    n = rng.randint(2, 5)
    rules = []
    names = [f"r{i}" for i in range(n)]

    def consuming():
        if rng.random() < 0.5:
            return rng.choice(lits)
        return rng.choice(_BUILTINS)

    def expr(i, depth):
        r = rng.random()
        if depth <= 0 or r < 0.2:
            if i > 0 and rng.random() < 0.4:
                return names[rng.randrange(i)]
            return consuming()
        if r < 0.45:
            return "(" + " ~ ".join(expr(i, depth - 1) for _ in range(rng.randint(2, 3))) + ")"
        if r < 0.65:
            alts = [expr(i, depth - 1) for _ in range(rng.randint(2, 3))]
            if reverse_choices:
                alts.reverse()
            return "(" + " | ".join(alts) + ")"
        if r < 0.75:
            return "(" + expr(i, depth - 1) + ")?"
        if r < 0.85:
            return "(" + consuming() + " ~ " + expr(i, depth - 1) + ")" + rng.choice(("*", "+", "{1,3}", "{2}"))
        if r < 0.93:
            return "(!" + consuming() + " ~ ANY)"
        return "&" + consuming()

    ws = rng.random()
    if ws < 0.5:
        rules.append('WHITESPACE = _{ " " | NEWLINE }' if rng.random() < 0.6 else 'WHITESPACE = _{ " " }')
    if rng.random() < 0.2:
        rules.append('COMMENT = _{ "#" ~ (!NEWLINE ~ ANY)* }')
    for i, name in enumerate(names):
        mod = rng.choices(("", "_", "@", "$", "!"), (6, 2, 1, 0.5, 0.5))[0]
        rules.append(f"{name} = {mod}{{ {expr(i, rng.randint(1, 3))} }}")
    text = "\n".join(rules) + "\n"
    calls = []
    for _ in range(rng.randint(4, 8)):
        calls.append((rng.choice(names), "".join(rng.choice(_ALPHABET + "ab") for _ in range(rng.randint(0, 8)))))
    return {"text": text, "calls": calls}


def twin_of(g):
    """Same rule names and the same alternatives in every choice, in reverse order (a
    different language in general): exercises caches keyed by names or by *sets*."""
    import re as _re  # noqa: PLC0415

    def rev(m):
        alts = [a.strip() for a in m.group(1).split(" | ")]
        return "(" + " | ".join(reversed(alts)) + ")"

    text = g["text"]
    for _ in range(4):
        new = _re.sub(r"\(([^()]*? \| [^()]*?)\)", rev, text)
        if new == text:
            break
        text = new
    return {"text": text, "calls": list(g["calls"])}


PASS_NAMES = ("unroll", "skip", "inline built-in", "squash_choice", "inline silent")


def random_optimizer_cfg(rng: random.Random):
    """None | list of pass names (subset / permutation / repetition of the defaults)."""
    r = rng.random()
    if r < 0.25:
        return None
    if r < 0.6:
        return list(PASS_NAMES)
    if r < 0.75:
        return [rng.choice(PASS_NAMES)]
    k = rng.randint(1, 6)
    return [rng.choice(PASS_NAMES) for _ in range(k)]


def random_fixed_point(rng: random.Random, passes):
    """Names of the passes a custom Optimizer runs to a fixed point (usually none)."""
    if not passes or rng.random() > 0.25:
        return []
    return sorted({rng.choice(passes) for _ in range(rng.randint(1, 2))})


def mutate_input(rng: random.Random, text: str) -> str:
    if not text:
        return rng.choice(("", "x", " "))
    i = rng.randrange(len(text))
    r = rng.random()
    if r < 0.4:
        return text[:i] + text[i + 1 :]
    if r < 0.8:
        return text[:i] + rng.choice("x1 ,]}\"\n") + text[i + 1 :]
    return text[:i]


def corrupt_grammar(rng: random.Random, text: str) -> str:
    """A grammar text the front end will (most likely) reject part way through: what a user
    gets wrong while editing -- a truncated file, a stray or missing character, a rule defined
    twice, a reference to a rule that does not exist, a bad escape or range."""
    r = rng.random()
    i = rng.randrange(len(text)) if text else 0
    if r < 0.25:
        return text[:i]
    if r < 0.45:
        return text[:i] + rng.choice("{}()|~\"'\\#@$!^[].") + text[i:]
    if r < 0.6:
        return text[:i] + text[i + 1 :]
    if r < 0.7:
        lines = [ln for ln in text.splitlines() if " = " in ln and ln.rstrip().endswith("}")]
        return text + "\n" + (rng.choice(lines) if lines else "a = { \"a\" }\na = { \"b\" }") + "\n"
    if r < 0.8:
        return text + "\nzz_bad = { \"a\" ~ no_such_rule_xyz }\n"
    if r < 0.9:
        return text + "\n" + rng.choice(("zz_bad = { \"\\q\" }", "zz_bad = { 'z'..'a' }", "zz_bad = { \"\\u{110000}\" }", "zz_bad = { PEEK[1..] ~ #t = \"a\" }", "zz_bad = { \"a\"{2,1} }", "ANY = { \"a\" }", "zz_bad = {", "zz_bad = { 'ab'..'c' }")) + "\n"
    return text[:i] + text[i:].swapcase()


# A grammar text that starts with this comment line is loaded through a Parser SUBCLASS with its
# own BUILTIN table (Parser.BUILTIN is a class attribute that from_grammar hands to the front
# end).  The marker makes the variant part of the grammar text, hence of every call key, every
# reference request and every replay file.
ALT_MARK = "//@alt-builtins\n"


def alt_builtin_table(parser_cls) -> dict:
    """Stock built-ins with a few names re-bound to OTHER stock rule objects and a few extra
    names that pool grammars define themselves (public pieces only: no rule is constructed)."""
    b = parser_cls.BUILTIN
    return {**b, "NEWLINE": b["ASCII_DIGIT"], "ASCII_ALPHA": b["ASCII_ALPHANUMERIC"], "ASCII_HEX_DIGIT": b["ASCII_OCT_DIGIT"],
            "first": b["ASCII_DIGIT"], "item": b["ASCII_HEX_DIGIT"], "near": b["ANY"], "WORD": b["ASCII_ALPHA"], "value": b["ASCII_DIGIT"], "id": b["ASCII_ALPHA"]}


def parser_class_for(gtext: str, base):
    """The class a grammar text is loaded with: `base`, or (marker present) a subclass of it
    with the alternative built-in table."""
    if not gtext.startswith(ALT_MARK):
        return base
    cache = parser_class_for.__dict__.setdefault("cache", {})
    if base not in cache:
        cache[base] = type("AltBuiltinParser", (base,), {"BUILTIN": alt_builtin_table(base)})
    return cache[base]


def alt_variant(g: dict) -> dict:
    return {**g, "text": ALT_MARK + g["text"]}


def flood_grammar(seed: int, i: int, m: int) -> str:
    """The i-th synthetic grammar of a GRAMMAR FLOOD: m rules with names, literals, case-
    insensitive keywords, ranges and choices that occur in no other grammar -- what a
    long-running process accumulates (rule names, compiled patterns, generated constants)."""
    rng = random.Random(derive(seed, i))
    rules = ['WHITESPACE = _{ " " }'] if i % 3 == 0 else []
    for j in range(m):
        a = 0x100 + rng.randrange(0x2000)
        lo, hi = chr(a), chr(a + rng.randint(1, 40))
        kw = "".join(rng.choice("abcdefghijklmnopqrstuvwxyz") for _ in range(rng.randint(3, 7)))
        body = rng.choice((
            f"'{lo}'..'{hi}' ~ ^\"{kw}\" ~ (\"{kw}{j}a\" | \"{kw}{j}b\" | \"{kw}\")",
            f"(!\"{kw}{i}\" ~ ANY)* ~ \"{kw}{i}\"",
            f"(\"{kw}\" | '{lo}'..'{hi}' | ^\"{kw}{j}\")+ ~ ASCII_DIGIT?",
        ))
        rules.append(f"f{i}_{j} = {{ {body} }}")
    return "\n".join(rules) + "\n"


def derive(*parts) -> int:
    import hashlib  # noqa: PLC0415

    return int.from_bytes(hashlib.sha256(repr(parts).encode()).digest()[:8], "big")
