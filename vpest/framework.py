"""Process architecture shared by all checks.

driver (./check)  --spawns-->  W worker interpreters (PYTHONHASHSEED = w mod 4)
worker            --forks--->  one pristine child per simulated run / batch / reference

A worker imports pest and the harness, never builds a parser itself, and therefore
stays *pristine*: every forked child starts from process-global state that no run has
touched.  A child reports one JSON document over a pipe and `_exit`s.  A child that
crashes, hangs (wall watchdog) or writes garbage is a HARNESS error (exit 2), never a
VIOLATION and never exit 0.
"""

from __future__ import annotations

import faulthandler
import json
import os
import select
import signal
import subprocess
import sys
import time
import traceback

from . import common

# --------------------------------------------------------------------------- children


class ChildError(Exception):
    """The forked child did not deliver a result (crash / timeout / garbage)."""


def _die_with_parent():
    """A child must never outlive its parent (an orphan would hold pipes open forever)."""
    try:
        import ctypes  # noqa: PLC0415

        ctypes.CDLL("libc.so.6", use_errno=True).prctl(1, signal.SIGKILL)  # PR_SET_PDEATHSIG
    except Exception:  # noqa: BLE001
        pass


def run_in_child(fn, arg, timeout: float = 60.0):
    """Run fn(arg) in a forked child; return its JSON-serialisable result.

    Must be called from a single-threaded (pristine) process.
    """
    r, w = os.pipe()
    sys.stdout.flush()
    sys.stderr.flush()
    pid = os.fork()
    if pid == 0:  # ------------------------------------------------ child
        code = 0
        try:
            os.close(r)
            _die_with_parent()
            # the worker's stdout is the JSON channel to the driver: nothing a run prints
            # (Hypothesis reports, debug output of the code under test) may reach it
            dn = os.open(os.devnull, os.O_WRONLY)
            os.dup2(dn, 1)
            if not os.environ.get("VERIF_CHILD_STDERR"):
                os.dup2(dn, 2)
            # signal-based dump only: dump_traceback_later() uses a watchdog thread, and
            # re-arming it in a forked grandchild dead-locks on the thread that no longer exists
            faulthandler.enable()
            faulthandler.register(signal.SIGUSR1, all_threads=True, chain=False)
            try:
                res = {"ok": fn(arg)}
            except BaseException as e:  # noqa: BLE001 - reported to the parent
                res = {
                    "harness_exception": f"{type(e).__name__}: {e}",
                    "traceback": traceback.format_exc()[-4000:],
                }
            data = json.dumps(res, default=repr).encode()
            with os.fdopen(w, "wb") as f:
                f.write(data)
        except BaseException:  # noqa: BLE001
            code = 3
        finally:
            os._exit(code)
    # ---------------------------------------------------------------- parent
    os.close(w)
    chunks: list[bytes] = []
    deadline = time.monotonic() + timeout
    timed_out = False
    try:
        while True:
            left = deadline - time.monotonic()
            if left <= 0:
                timed_out = True
                break
            ready, _, _ = select.select([r], [], [], min(left, 1.0))
            if ready:
                b = os.read(r, 1 << 16)
                if not b:
                    break
                chunks.append(b)
    finally:
        os.close(r)
    if timed_out:
        try:
            os.kill(pid, signal.SIGUSR1)  # traceback to the child's stderr (if kept)
            time.sleep(0.2)
            os.kill(pid, signal.SIGKILL)
        except ProcessLookupError:
            pass
        os.waitpid(pid, 0)
        raise ChildError(f"child timed out after {timeout}s")
    _, status = os.waitpid(pid, 0)
    data = b"".join(chunks)
    if not data:
        raise ChildError(f"child died without result (wait status {status})")
    try:
        res = json.loads(data)
    except ValueError as e:
        raise ChildError(f"child wrote garbage: {e}") from e
    if "harness_exception" in res:
        raise ChildError(res["harness_exception"] + "\n" + res.get("traceback", ""))
    return res["ok"]


class Zygote:
    """Client side of vpest/zygote_main.py (one zygote per worker / replay process)."""

    def __init__(self, hashseed):
        env = {
            "PATH": "/usr/bin:/bin",
            "PYTHONHASHSEED": str(hashseed),
            "PYTHONDONTWRITEBYTECODE": "1",
            "VERIF_PEST_SRC": common.PEST_SRC,
            "LC_ALL": "C.UTF-8",
        }
        self.hashseed = str(hashseed)
        zy = os.path.join(common.VERIF_DIR, "vpest", "zygote_main.py")
        self.p = subprocess.Popen([common.PYTHON, "-B", zy], stdin=subprocess.PIPE, stdout=subprocess.PIPE, stderr=subprocess.DEVNULL, env=env, cwd="/")

    def run(self, plan, timeout: float):
        import struct  # noqa: PLC0415

        payload = json.dumps(plan).encode()
        try:
            self.p.stdin.write(struct.pack("<II", len(payload), int(timeout * 1000)) + payload)
            self.p.stdin.flush()
            hdr = self._readn(5, timeout + 30)
            st, n = struct.unpack("<BI", hdr)
            data = self._readn(n, 60)
        except (BrokenPipeError, OSError, ChildError) as e:
            self.close()
            raise ChildError(f"zygote failed: {e}") from e
        if st != 0:
            raise ChildError(data.decode(errors="replace"))
        try:
            res = json.loads(data)
        except ValueError as e:
            raise ChildError(f"child wrote garbage: {e}") from e
        if "harness_exception" in res:
            raise ChildError(res["harness_exception"] + "\n" + res.get("traceback", ""))
        return res["ok"]

    def _readn(self, n, timeout):
        fd = self.p.stdout.fileno()
        buf = b""
        deadline = time.monotonic() + timeout
        while len(buf) < n:
            left = deadline - time.monotonic()
            if left <= 0:
                raise ChildError("zygote did not answer in time")
            ready, _, _ = select.select([fd], [], [], min(left, 1.0))
            if ready:
                b = os.read(fd, n - len(buf))
                if not b:
                    raise ChildError("zygote closed its pipe")
                buf += b
        return buf

    def close(self):
        try:
            self.p.kill()
            self.p.wait(timeout=5)
        except Exception:  # noqa: BLE001
            pass


def run_canonical(plan, timeout: float = 200.0):
    """Execute a C15 plan in a fresh interpreter with fixed argv and environment."""
    env = {
        "PATH": "/usr/bin:/bin",
        "PYTHONHASHSEED": str(plan.get("hashseed", 0)),
        "PYTHONDONTWRITEBYTECODE": "1",
        "VERIF_PEST_SRC": common.PEST_SRC,
        "LC_ALL": "C.UTF-8",
    }
    child = os.path.join(common.VERIF_DIR, "vpest", "child_main.py")
    try:
        r = subprocess.run([common.PYTHON, "-B", child], input=json.dumps(plan).encode(), capture_output=True, env=env, timeout=timeout, cwd="/", check=False)
    except subprocess.TimeoutExpired as e:
        raise ChildError(f"canonical child timed out after {timeout}s") from e
    if not r.stdout:
        raise ChildError(f"canonical child died without result (status {r.returncode}): {r.stderr.decode(errors='replace')[-1500:]}")
    try:
        res = json.loads(r.stdout)
    except ValueError as e:
        raise ChildError(f"canonical child wrote garbage: {e}") from e
    if "harness_exception" in res:
        raise ChildError(res["harness_exception"] + "\n" + res.get("traceback", ""))
    return res["ok"]


# ------------------------------------------------------------------- stats merging


def merge_stats(acc: dict, new: dict, sample_cap: int = 6) -> dict:
    """Merge by key convention: set_* union, max_* max, sample_* keep a few, dict
    recurse, numbers add."""
    for k, v in new.items():
        if k.startswith("set_"):
            s = acc.setdefault(k, set())
            if not isinstance(s, set):
                s = acc[k] = set(_hashable(x) for x in s)
            s.update(_hashable(x) for x in v)
        elif k.startswith("max_"):
            acc[k] = max(acc.get(k, v), v)
        elif k.startswith("sample_"):
            lst = acc.setdefault(k, [])
            for x in v:
                if len(lst) < sample_cap:
                    lst.append(x)
        elif isinstance(v, dict):
            merge_stats(acc.setdefault(k, {}), v, sample_cap)
        elif isinstance(v, (int, float)) and not isinstance(v, bool):
            acc[k] = acc.get(k, 0) + v
        else:
            acc.setdefault(k, v)
    return acc


def _hashable(x):
    if isinstance(x, list):
        return tuple(_hashable(y) for y in x)
    return x


def jsonable_stats(acc: dict) -> dict:
    out = {}
    for k, v in acc.items():
        if isinstance(v, set):
            out[k] = sorted(v, key=repr)
        elif isinstance(v, dict):
            out[k] = jsonable_stats(v)
        else:
            out[k] = v
    return out


# ----------------------------------------------------------------------------- worker


def get_check(check_id: str):
    if check_id == "C09":
        from . import c09  # noqa: PLC0415

        return c09.Check()
    if check_id == "C05":
        from . import c05  # noqa: PLC0415

        return c05.Check()
    if check_id == "C15":
        from . import c15  # noqa: PLC0415

        return c15.Check()
    raise SystemExit(f"unknown check {check_id}")


def worker_main(argv: list[str]) -> int:
    """argv: check_id seed tier w W n_jobs deadline_epoch"""
    check_id, seed, tier, w, W, n_jobs, deadline = (
        argv[0],
        int(argv[1]),
        argv[2],
        int(argv[3]),
        int(argv[4]),
        int(argv[5]),
        float(argv[6]),
    )
    common.import_pest()
    import gc  # noqa: PLC0415

    check = get_check(check_id)
    ctx = check.make_ctx(tier)
    ctx["hashseed"] = os.environ.get("PYTHONHASHSEED", "random")
    acc: dict = {}
    jobs = 0
    out = sys.stdout
    k = w
    max_viol_lines = 40
    viol_lines = 0
    while (n_jobs < 0 or k < n_jobs) and time.time() < deadline:
        job = check.make_job(seed, k, tier)
        try:
            res = check.run_job(job, ctx)
        except ChildError as e:
            out.write(json.dumps({"t": "err", "k": k, "msg": str(e)[:3000]}) + "\n")
            out.flush()
            k += W
            continue
        jobs += 1
        if os.environ.get("VERIF_EMIT_DIGESTS"):
            out.write(json.dumps({"t": "dig", "k": k, "d": res.get("digest")}) + "\n")
        merge_stats(acc, res.get("stats", {}))
        for v in res.get("violations", []):
            if viol_lines < max_viol_lines:
                out.write(json.dumps({"t": "viol", "k": k, "v": v}, default=repr) + "\n")
                out.flush()
                viol_lines += 1
            else:
                acc["violations_not_forwarded"] = acc.get("violations_not_forwarded", 0) + 1
        k += W
        if jobs % 50 == 0:
            gc.collect()
    if hasattr(check, "finish_worker"):
        merge_stats(acc, check.finish_worker(ctx))
    out.write(json.dumps({"t": "done", "jobs": jobs, "stats": jsonable_stats(acc)}) + "\n")
    out.flush()
    return 0


# ----------------------------------------------------------------------------- driver


def spawn_workers(check_id, seed, tier, W, n_jobs, budget_s):
    deadline = time.time() + budget_s
    procs = []
    for w in range(W):
        env = dict(os.environ)
        env["PYTHONHASHSEED"] = str(w % 4)
        env["PYTHONDONTWRITEBYTECODE"] = "1"
        p = subprocess.Popen(
            [common.PYTHON, "-B", common.MAIN, "--worker", check_id, str(seed), tier,
             str(w), str(W), str(n_jobs), repr(deadline)],
            stdout=subprocess.PIPE,
            stderr=subprocess.PIPE,
            env=env,
            cwd=common.VERIF_DIR,
        )
        procs.append(p)
    return procs, deadline


def collect_workers(procs, hard_deadline):
    """Read every worker's JSON lines. Returns (acc_stats, violations, errors, jobs)."""
    import threading  # noqa: PLC0415 - driver only; workers and children never do this

    acc: dict = {}
    viols: list[dict] = []
    errors: list[str] = []
    jobs = [0]
    done = [0]
    lock = threading.Lock()

    def reader(p, idx):
        for line in p.stdout:
            try:
                m = json.loads(line)
            except ValueError:
                with lock:
                    errors.append(f"worker {idx}: unparsable line {line[:200]!r}")
                continue
            with lock:
                if m["t"] == "viol":
                    m["v"]["_k"] = m["k"]
                    viols.append(m["v"])
                elif m["t"] == "err":
                    errors.append(f"job {m['k']}: {m['msg']}")
                elif m["t"] == "done":
                    merge_stats(acc, m["stats"])
                    jobs[0] += m["jobs"]
                    done[0] += 1

    def err_reader(p, idx):
        data = p.stderr.read()
        if data and data.strip():
            with lock:
                errors.append(f"worker {idx} stderr: {data.decode(errors='replace')[-3000:]}")

    threads = []
    for i, p in enumerate(procs):
        for fn in (reader, err_reader):
            t = threading.Thread(target=fn, args=(p, i), daemon=True)
            t.start()
            threads.append(t)
    for p in procs:
        left = hard_deadline - time.time()
        try:
            p.wait(timeout=max(1.0, left))
        except subprocess.TimeoutExpired:
            p.kill()
            with lock:
                errors.append("worker killed at hard deadline")
    for t in threads:
        t.join(timeout=10)
    for i, p in enumerate(procs):
        if p.returncode not in (0, None):
            errors.append(f"worker {i} exit status {p.returncode}")
    if done[0] != len(procs):
        errors.append(f"only {done[0]} of {len(procs)} workers reported completion")
    return acc, viols, errors, jobs[0]
