"""Shared plumbing: paths, seed derivation, evidence, known findings.

Nothing here draws from a PRNG or reads a clock on behalf of a simulated run; wall
time is only ever read by the driver, outside runs.
"""

from __future__ import annotations

import hashlib
import json
import os
import sys

VERIF_DIR = os.path.dirname(os.path.dirname(os.path.abspath(__file__)))
OUT_DIR = os.path.join(VERIF_DIR, "out")
REPLAY_DIR = os.path.join(OUT_DIR, "replays")
EVIDENCE_DIR = os.environ.get("VERIF_EVIDENCE_DIR") or os.path.join(VERIF_DIR, "evidence")
KNOWN_FINDINGS = os.path.join(VERIF_DIR, "known_findings.json")

PEST_SRC = os.path.abspath(os.environ.get("VERIF_PEST_SRC", "/repo/src"))
PYTHON = os.environ.get("VERIF_PYTHON", "/venv/bin/python")
if PEST_SRC != "/repo/src" and not os.environ.get("VERIF_EVIDENCE_DIR"):
    # self-tests against scratch copies must never overwrite the evidence of /repo
    EVIDENCE_DIR = os.path.join(OUT_DIR, "evidence-scratch")
REPLAY_DIR = os.environ.get("VERIF_REPLAY_DIR") or REPLAY_DIR
MAIN = os.path.join(VERIF_DIR, "vpest_main.py")

EXIT_OK = 0
EXIT_VIOLATION = 1
EXIT_HARNESS = 2


def install_pest_path() -> None:
    """Put the tree under test first on sys.path (always the current working tree)."""
    if sys.path[0] != PEST_SRC:
        sys.path.insert(0, PEST_SRC)
    # a stale import from an installed copy would silently test the wrong code
    if "pest" in sys.modules:
        mod = sys.modules["pest"]
        f = os.path.abspath(getattr(mod, "__file__", "") or "")
        if not f.startswith(PEST_SRC + os.sep):
            raise RuntimeError(f"pest already imported from {f}, expected {PEST_SRC}")


def import_pest():
    install_pest_path()
    import pest  # noqa: PLC0415

    f = os.path.abspath(pest.__file__)
    if not f.startswith(PEST_SRC + os.sep):
        raise RuntimeError(f"pest imported from {f}, expected under {PEST_SRC}")
    return pest


def derive_seed(*parts: object) -> int:
    """64-bit seed from arbitrary parts (stable across processes and hash seeds)."""
    h = hashlib.sha256(repr(parts).encode()).digest()
    return int.from_bytes(h[:8], "big")


def digest(obj: object) -> str:
    return hashlib.sha256(
        json.dumps(obj, sort_keys=True, default=repr, ensure_ascii=True).encode()
    ).hexdigest()[:16]


def env_int(name: str, default: int) -> int:
    v = os.environ.get(name)
    if v is None or v == "":
        return default
    try:
        return int(v)
    except ValueError:
        return default


def load_known_findings() -> list[dict]:
    try:
        with open(KNOWN_FINDINGS) as f:
            return json.load(f).get("findings", [])
    except FileNotFoundError:
        return []


def known_signature_map(prop: str) -> dict[str, dict]:
    """Signatures listed as status=known for `prop` (fixed entries suppress nothing)."""
    return {
        e["signature"]: e
        for e in load_known_findings()
        if e.get("property") == prop and e.get("status") == "known"
    }


def write_evidence(prop: str, ev: dict) -> str:
    os.makedirs(EVIDENCE_DIR, exist_ok=True)
    path = os.path.join(EVIDENCE_DIR, f"{prop}.json")
    tmp = path + ".tmp"
    with open(tmp, "w") as f:
        json.dump(ev, f, indent=1, sort_keys=False, default=repr)
        f.write("\n")
    os.replace(tmp, path)
    return path


def write_replay(prop: str, name: str, plan: dict) -> str:
    os.makedirs(REPLAY_DIR, exist_ok=True)
    path = os.path.join(REPLAY_DIR, f"{prop}-{name}.json")
    with open(path, "w") as f:
        json.dump(plan, f, indent=1, default=repr)
        f.write("\n")
    return path
