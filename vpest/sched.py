"""Deterministic scheduler for real threads (baton passing) with sys.settrace pre-emption.

Simulated clients are real threading.Threads; exactly one holds the baton, all others are
parked on their own semaphore.  Inside the baton holder sys.settrace delivers a line (or
opcode) event for every frame of the code under test; each event is one scheduler STEP.
At a step the scheduler may inject a fault (abort / gc / purge) and may hand the baton to
another client.  The OS scheduler therefore never decides who runs.

Every decision is either drawn from the run's PRNG (search) or read from an explicit list
of yield points (replay / minimisation).  Yield points are positioned relative to
operations -- (client, op id, step offset inside the op) -- so they survive the deletion of
other operations.
"""

from __future__ import annotations

import gc
import hashlib
import random
import sys
import threading
import _thread


class SimAbort(BaseException):
    """Injected asynchronous abort of the running operation (KeyboardInterrupt-like)."""


class StepCap(BaseException):
    """The run exceeded its step budget (bounded liveness)."""


class Scheduler:
    def __init__(self, n_clients, trace_prefixes, *, policy=None, sched_seed=0, explicit=None, faults=(), step_cap=2_000_000, op_step_cap=400_000, hot_funcs=(), force_trace=False):
        self.n = n_clients
        self.prefixes = tuple(trace_prefixes)
        self.policy = dict(policy or {"kind": "seq"})
        if force_trace:
            self.policy["force_trace"] = True
        self.rng = random.Random(sched_seed)
        self.explicit = explicit is not None
        # explicit yields, per client: list of [oid, offset, next]
        self.yq: list[list] = [[] for _ in range(n_clients)]
        if explicit is not None:
            for tid, oid, off, nxt in explicit:
                if 0 <= tid < n_clients:
                    self.yq[tid].append([oid, off, nxt])
        self.recorded: list[list] = []  # yield points actually taken: [tid, oid, offset, next]
        # raw locks, not threading.Semaphore: acquire/release are C calls and need no Python
        # frame, so the baton hand-off cannot be torn by a RecursionError when an injected
        # stack exhaustion leaves only a few frames of head-room
        self.sems = [_thread.allocate_lock() for _ in range(n_clients)]
        for lk in self.sems:
            lk.acquire()
        self.no_preempt = [False] * n_clients
        self.cur_faults: list = [None] * n_clients
        self.roll = 0
        self.done_evt = threading.Event()
        self.state = ["ready"] * n_clients  # ready | done
        self.current = -1
        self.steps = 0
        self.step_cap = step_cap
        self.op_step_cap = op_step_cap
        self.switches = 0
        self.log = hashlib.blake2b(digest_size=12)
        self.capped = False
        # per-op context of the baton holder
        self.cur_oid = [None] * n_clients
        self.cur_opidx = [0] * n_clients
        self.op_steps = [0] * n_clients
        self.op_order: list[dict] = []  # per client: oid -> index
        # faults by (tid, oid): list of [offset, kind, fired]
        self.faults: dict[tuple, list] = {}
        for f in faults:
            if f["kind"] in ("abort", "gc", "purge"):
                self.faults.setdefault((f["client"], f["oid"]), []).append([f["offset"], f["kind"], False, f])
        self.fired: list[dict] = []
        self.kind = self.policy.get("kind", "seq")
        self.traced = self.kind != "seq" or bool(self.faults) or bool(self.policy.get("force_trace")) or (self.explicit and any(off >= 0 for q in self.yq for _, off, _ in q))
        self.opcode = self.kind == "opcode" or self.policy.get("opcode", False)
        self.p = float(self.policy.get("p", 0.0))
        self.hot = set(hot_funcs)
        self.p_hot = min(0.5, self.p * 100) if self.kind == "site" else 0.0
        self.next_switch = self._draw_gap() if self.kind in ("rand", "opcode") else -1
        self.pct_points = sorted(self.policy.get("points", ())) if self.kind == "pct" else []
        self.prio = list(range(n_clients))
        if self.kind == "pct":
            self.rng.shuffle(self.prio)
        # `fresh` policy: novelty-biased pre-emption.  A line that has not been executed yet
        # for the current operation's target object (by any client) is a likely part of
        # once-only code -- lazy initialisation, first-use caches -- whose windows a uniform
        # coin almost never hits; it gets switch probability p_new, everything else p.
        self.novel: dict = {}
        self.p_new = float(self.policy.get("p_new", 0.25))
        self.sites: set = set()
        self.fast_kind = 3 if self.explicit else {"seq": 0, "rand": 1, "opcode": 1, "pct": 2, "site": 4, "fresh": 4}.get(self.kind, 0)
        self.concurrency_probe = {"two_in_parse_same_object": 0, "preempted_in_optimize_while_other_parses": 0, "exec_overlaps_parse": 0}
        self.active_kind = [None] * n_clients  # what each client is in the middle of: (kind, target)
        self.errors: list[str] = []
        # optional per-operation line log (function, line) per step -- used by sweep plans to
        # tell the lines only a COLD call executes from those every call executes
        self.line_logs: dict | None = None
        self.cur_log: list | None = None

    # ------------------------------------------------------------------ policy helpers
    def _draw_gap(self):
        if self.p <= 0:
            return -1
        # geometric gap: identical in distribution to a coin flip per step, one draw per switch
        u = self.rng.random()
        import math  # noqa: PLC0415

        return self.steps + 1 + int(math.log(1.0 - u) / math.log(1.0 - self.p))

    def runnable(self, exclude=None):
        return [i for i in range(self.n) if self.state[i] == "ready" and i != exclude]

    def _pick_other(self, me):
        r = self.runnable(exclude=me)
        if not r:
            return None
        if self.kind == "pct":
            return max(r, key=lambda i: self.prio[i])
        return r[self.rng.randrange(len(r))]

    # ---------------------------------------------------------------------- baton
    def _switch(self, me, nxt, offset):
        """Hand the baton from `me` to `nxt` and park until it comes back."""
        self.recorded.append([me, self.cur_oid[me], offset, nxt])
        self.switches += 1
        self.flush_roll()
        self.log.update(b"S%d>%d@%d;" % (me, nxt, self.steps))
        a, b = self.active_kind[me], self.active_kind[nxt]
        if a and b:
            if a[0] == "parse" and b[0] == "parse" and a[1] == b[1]:
                self.concurrency_probe["two_in_parse_same_object"] += 1
            if (a[0] == "new" and b[0] == "parse") or (b[0] == "new" and a[0] == "parse"):
                self.concurrency_probe["preempted_in_optimize_while_other_parses"] += 1
            if (a[0] == "gen" and b[0] == "parse") or (b[0] == "gen" and a[0] == "parse"):
                self.concurrency_probe["exec_overlaps_parse"] += 1
        self.current = nxt
        self.sems[nxt].release()
        self.sems[me].acquire()
        # resumed: tracing state is per thread and still armed

    def start(self):
        """Called by the main thread after all client threads are parked."""
        first = self._explicit_start() if self.explicit else None
        if first is None:
            r = self.runnable()
            first = r[self.rng.randrange(len(r))] if not self.explicit else r[0]
        self.first = first
        self.current = first
        self.sems[first].release()

    def _explicit_start(self):
        return self._start_hint if hasattr(self, "_start_hint") and self.state[self._start_hint] == "ready" else None

    def set_start_hint(self, tid):
        self._start_hint = tid

    def wait_turn(self, me):
        self.sems[me].acquire()

    def thread_done(self, me):
        self.state[me] = "done"
        self.active_kind[me] = None
        r = self.runnable()
        if not r:
            self.done_evt.set()
            return
        nxt = None
        if self.explicit:
            nxt = self._explicit_next(me, -2)
        if nxt is None or self.state[nxt] != "ready":
            nxt = r[self.rng.randrange(len(r))] if not self.explicit else r[0]
        self.recorded.append([me, "<end>", -2, nxt])
        self.log.update(b"E%d>%d;" % (me, nxt))
        self.current = nxt
        self.sems[nxt].release()

    # ------------------------------------------------------------------ op brackets
    def begin_op(self, me, oid, opidx, kind, target, no_preempt=False):
        self.no_preempt[me] = no_preempt
        self.cur_faults[me] = self.faults.get((me, oid))
        self.flush_roll()
        self.cur_oid[me] = oid
        self.cur_opidx[me] = opidx
        self.op_steps[me] = 0
        self.active_kind[me] = (kind, target)
        self.log.update(b"B%d:%s;" % (me, str(oid).encode()))
        if self.line_logs is not None:
            self.cur_log = self.line_logs.setdefault(oid, [])

    def end_op(self, me):
        """Operation boundary: always a scheduling point (the only one under `seq`)."""
        self.active_kind[me] = None
        if self.explicit:
            nxt = self._explicit_next(me, -1)
            if nxt is not None and nxt != me and self.state[nxt] == "ready":
                self._switch(me, nxt, -1)
            return
        r = self.runnable(exclude=me)
        if not r:
            return
        if self.kind == "seq":
            # operation-granular history: uniformly choose who runs next (possibly me)
            k = self.rng.randrange(len(r) + 1)
            if k < len(r):
                self._switch(me, r[k], -1)
        elif self.kind == "pct":
            best = max(r + [me], key=lambda i: self.prio[i])
            if best != me:
                self._switch(me, best, -1)
        elif self.rng.random() < 0.3:
            self._switch(me, r[self.rng.randrange(len(r))], -1)

    def _explicit_next(self, me, offset):
        """Consume the head yield point of `me` if it is exactly here; drop stale ones."""
        q = self.yq[me]
        order = self.op_order[me] if me < len(self.op_order) else {}
        cur_idx = self.cur_opidx[me]
        while q:
            oid, off, nxt = q[0]
            if oid == "<end>":
                if offset == -2:
                    q.pop(0)
                    return nxt
                return None
            idx = order.get(oid)
            if idx is None or idx < cur_idx:
                q.pop(0)  # refers to an operation that no longer exists / already passed
                continue
            if idx > cur_idx:
                return None
            # same operation
            if offset == -2:
                q.pop(0)
                continue
            if off == offset:
                q.pop(0)
                return nxt
            if offset == -1:
                # op is ending; in-op yields that were never reached are stale
                if off >= 0:
                    q.pop(0)
                    continue
                return None
            if off >= 0 and off < offset:
                q.pop(0)
                continue
            return None
        return None

    # ---------------------------------------------------------------------- tracing
    def global_trace(self, frame, event, arg):
        fn = frame.f_code.co_filename
        if fn.startswith(self.prefixes):
            if self.opcode:
                frame.f_trace_opcodes = True
            return self.local_trace
        return None

    def local_trace(self, frame, event, arg):
        # the hot path: one Python call per traced line.  Everything a step always does is
        # here; the rare parts (caps, faults, decisions that fire) are in step_slow().
        if event != "line" and event != "opcode":
            return self.local_trace
        me = self.current
        steps = self.steps = self.steps + 1
        ops = self.op_steps
        off = ops[me] = ops[me] + 1
        # event-log digest: a rolling 60-bit hash of (client, line) per step, folded into the
        # blake2 log at every operation boundary, switch and fault
        self.roll = ((self.roll * 1000003) ^ (frame.f_lineno + (me << 24))) & 0xFFFFFFFFFFFFFFF
        if self.cur_log is not None:
            self.cur_log.append((frame.f_code.co_name, frame.f_lineno))
        if self.cur_faults[me] is not None or steps > self.step_cap or off > self.op_step_cap:
            self.step_slow(frame, me, off)
        if self.no_preempt[me]:
            return self.local_trace
        k = self.fast_kind
        if k == 1:  # rand
            if steps >= self.next_switch >= 0:
                self.decide(frame, me, off)
        elif k == 2:  # pct
            if self.pct_points and steps >= self.pct_points[0]:
                self.decide(frame, me, off)
        elif k == 3:  # explicit
            if self.yq[me]:
                self.decide(frame, me, off)
        elif k == 4:  # site / fresh: a draw per step
            self.decide(frame, me, off)
        return self.local_trace

    def flush_roll(self):
        self.log.update(self.roll.to_bytes(8, "little"))

    def arm(self):
        if self.traced:
            sys.settrace(self.global_trace)

    def disarm(self):
        sys.settrace(None)

    def step_slow(self, frame, me, off):
        code = frame.f_code
        if self.steps > self.step_cap or off > self.op_step_cap:
            self.capped = True
            raise StepCap
        # ---- faults placed inside this operation
        fl = self.cur_faults[me]
        if fl:
            for f in fl:
                if not f[2] and f[0] == off:
                    f[2] = True
                    self.fired.append({"kind": f[1], "client": me, "oid": self.cur_oid[me], "offset": off, "at": f"{code.co_filename.rsplit('/', 1)[-1]}:{code.co_name}:{frame.f_lineno}"})
                    self.flush_roll()
                    self.log.update(b"F" + f[1].encode())
                    if f[1] == "gc":
                        gc.collect()
                    elif f[1] == "purge":
                        import regex  # noqa: PLC0415

                        regex.purge()
                    elif f[1] == "abort":
                        raise SimAbort
    def decide(self, frame, me, off):
        """Scheduling decision at a step (never inside an operation running under a recursion
        pad: scheduler code needs Python frames of its own, and a RecursionError inside it
        would make search and replay diverge)."""
        code = frame.f_code
        if self.explicit:
            q = self.yq[me]
            if q:
                nxt = self._explicit_next(me, off)
                if nxt is not None and nxt != me and self.state[nxt] == "ready":
                    self.sites.add((code.co_name, frame.f_lineno))
                    self._switch(me, nxt, off)
            return
        k = self.kind
        if k == "seq":
            return
        if k in ("rand", "opcode"):
            if self.steps >= self.next_switch >= 0:
                self.next_switch = self._draw_gap()
                nxt = self._pick_other(me)
                if nxt is not None:
                    self.sites.add((code.co_name, frame.f_lineno))
                    self._switch(me, nxt, off)
        elif k == "site":
            p = self.p_hot if code.co_name in self.hot else self.p
            if self.rng.random() < p:
                nxt = self._pick_other(me)
                if nxt is not None:
                    self.sites.add((code.co_name, frame.f_lineno))
                    self._switch(me, nxt, off)
        elif k == "fresh":
            ak = self.active_kind[me]
            key = (ak[1] if ak else None, code.co_name, frame.f_lineno)
            c = self.novel.get(key, 0)
            self.novel[key] = c + 1
            if self.rng.random() < (self.p_new if c == 0 else self.p):
                nxt = self._pick_other(me)
                if nxt is not None:
                    self.sites.add((code.co_name, frame.f_lineno))
                    self._switch(me, nxt, off)
        elif k == "pct":
            if self.pct_points and self.steps >= self.pct_points[0]:
                self.pct_points.pop(0)
                # priority change point: the running client drops below everyone
                self.prio[me] = min(self.prio) - 1
                nxt = self._pick_other(me)
                if nxt is not None and self.prio[nxt] > self.prio[me]:
                    self.sites.add((code.co_name, frame.f_lineno))
                    self._switch(me, nxt, off)

    def digest(self):
        self.flush_roll()
        return self.log.hexdigest()
