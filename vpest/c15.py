"""C15 -- parsers are isolated, reusable and re-entrant.

One simulated run = a pristine forked process in which 1-4 simulated clients (real threads
under the baton scheduler of sched.py) create parsers (optimized or not, shared or fresh
Optimizer objects), generate and exec modules, parse (succeeding and failing), drop
objects, and are hit by faults (asynchronous abort at a seeded step, stack exhaustion,
gc, regex cache purge).  Everything python-pest is real code; nothing is stubbed.

Oracle: every completed parse() is compared with the ISOLATED REFERENCE for its call key
(grammar text, optimizer pass names, interpreter|generated, rule, input, start position):
a pristine process that builds exactly that one parser (and module) and makes exactly that
one call.  C15 says the result depends on nothing else.
"""

from __future__ import annotations

import gc
import hashlib
import random
import re
import sys
import threading
import types

from . import common, pool
from .framework import ChildError, Zygote, run_in_child
from .sched import Scheduler, SimAbort, StepCap

HOT_FUNCS = ("optimize", "_run_once", "_apply", "_optimize_skip_rule", "pattern", "parse", "__init__", "from_grammar", "generate", "generate_module", "fail", "is_pure")

# ============================================================================ plans


def optkey(passes):
    """The optimizer setting: pass names in order; a pass run to a fixed point is written
    name* (the plan's `fixed_point` list is folded into the names before anything else
    sees them, so that the call key, the reference and the replay all agree)."""
    return None if passes is None else tuple(passes)


def fold_fixed_point(spec):
    if spec.get("passes") and spec.get("fixed_point"):
        fp = set(spec["fixed_point"])
        return {**{k: v for k, v in spec.items() if k != "fixed_point"}, "passes": [p + "*" if p in fp and not p.endswith("*") else p for p in spec["passes"]]}
    return spec


def gen_plan(run_seed: int, k: int, tier: str) -> dict:
    rng = random.Random(run_seed)
    n_clients = rng.choices((1, 2, 3, 4), (3, 4, 2, 1))[0]
    if n_clients == 1:
        kind = "seq"
    else:
        # (an `opcode` policy -- pre-emption on opcode events -- exists in sched.py but is never
        # drawn: CPython 3.12.1 segfaults with frame.f_trace_opcodes when an exception unwinds a
        # traced frame; pre-emption is at line granularity only)
        kinds = ("seq", "rand", "pct", "site", "fresh")
        kind = rng.choices(kinds, (42, 20, 10, 12, 16))[0]
    policy = {"kind": kind}
    if kind == "fresh":
        policy["p"] = rng.choice((0.0, 1e-3, 1e-2))
        policy["p_new"] = rng.choice((0.1, 0.25, 0.5))
    if kind in ("rand", "site"):
        policy["p"] = rng.choice((1e-4, 1e-3, 1e-2, 5e-2, 0.2))
        if kind == "site":
            policy["p"] = rng.choice((1e-4, 1e-3))
    if kind == "pct":
        policy["points"] = sorted(rng.randrange(0, 60_000) for _ in range(rng.randint(1, 4)))

    # ---- grammar subset (swarm): fixed detectors, bundled grammars, random small ones
    fixed = pool.FIXED
    bundled = pool.bundled()
    gsel: dict[str, dict] = {}
    mix = rng.random()
    if mix < 0.75:
        gsel["P-leak"] = fixed["P-leak"]
    if rng.random() < 0.5:
        gsel["P-builtin"] = fixed["P-builtin"]
        if rng.random() < 0.5:
            gsel["P-builtin2"] = fixed["P-builtin2"]
    if rng.random() < 0.3:
        gsel["P-leak2"] = fixed["P-leak2"]
    if rng.random() < 0.25:
        gsel["P-twin1"] = fixed["P-twin1"]
        gsel["P-twin2"] = fixed["P-twin2"]
    if rng.random() < 0.25:
        gsel["P-mod"] = fixed["P-mod"]
    if rng.random() < 0.2:
        gsel["P-fold"] = fixed["P-fold"]
    if rng.random() < 0.25:
        gsel["P-cyc"] = fixed["P-cyc"]
    if rng.random() < 0.2:
        gsel["P-skip"] = fixed["P-skip"]
    if bundled and rng.random() < 0.5:
        name = rng.choice(sorted(bundled))
        gsel[name] = bundled[name]
    if rng.random() < 0.35:
        # random grammars are shared by a few consecutive runs of one worker (reference cache)
        for i in range(rng.randint(1, 2)):
            gseed = common.derive_seed("C15-rg", k % 16, (k // 16) // 4, i)
            gsel[f"R{i}"] = pool.random_grammar(random.Random(gseed))
            if rng.random() < 0.4:
                tw = pool.random_grammar(random.Random(gseed), reverse_choices=True)
                if tw["text"] != gsel[f"R{i}"]["text"]:
                    gsel[f"R{i}t"] = tw
    if not gsel:
        gsel["P-leak"] = fixed["P-leak"]
    if rng.random() < 0.12:
        # the same grammar text through a Parser SUBCLASS with its own BUILTIN table, next to
        # the stock class: what one class's front end / optimizer keeps must not reach the other
        for name in rng.sample(sorted(gsel), min(len(gsel), rng.randint(1, 2))):
            gsel[name + "@alt"] = pool.alt_variant(gsel[name])
    gids = sorted(gsel)

    # ---- optimizer objects
    optimizers: dict[str, dict] = {"o_none": {"passes": None}}
    optimizers["o_shared"] = {"passes": list(pool.PASS_NAMES), "shared_default": True}
    for i in range(rng.randint(1, 3)):
        ps = pool.random_optimizer_cfg(rng)
        optimizers[f"o{i}"] = fold_fixed_point({"passes": ps, "fixed_point": pool.random_fixed_point(rng, ps)})
    oids = sorted(optimizers)

    counter = [0]
    churn = rng.random() < 0.08  # swarm knob: this run churns through short-lived parsers
    objects: dict[str, dict] = {}  # id -> {"kind", "g", "opt"}

    def new_op(owner):
        counter[0] += 1
        pid = f"p{counter[0]}"
        g = rng.choice(gids)
        o = rng.choices(oids, [3 if x == "o_none" else 3 if x == "o_shared" else 1.5 for x in oids])[0]
        objects[pid] = {"kind": "parser", "g": g, "opt": o, "owner": owner}
        return {"op": "new", "id": pid, "g": g, "opt": o, "debug": rng.random() < 0.15}

    def newfrom_op(owner, src):
        # Parser(other.rules, ...): a second parser over the SAME Rule objects (the documented
        # constructor), with its own optimizer setting
        counter[0] += 1
        pid = f"p{counter[0]}"
        o = rng.choices(oids, [1 if x == "o_none" else 4 if x == "o_shared" else 2 for x in oids])[0]
        objects[pid] = {"kind": "parser", "g": objects[src]["g"], "opt": o, "owner": owner}
        return {"op": "newfrom", "id": pid, "src": src, "opt": o, "debug": rng.random() < 0.1}

    def gen_op(owner, pid):
        counter[0] += 1
        mid = f"m{counter[0]}"
        objects[mid] = {"kind": "module", "g": objects[pid]["g"], "opt": objects[pid]["opt"], "owner": owner, "from": pid}
        return {"op": "gen", "id": mid, "p": pid}

    def parse_op(target, deep=False):
        g = gsel[objects[target]["g"]]
        overflow = False
        if deep and g.get("deep"):
            rule, text = rng.choice(g["deep"])
        elif g.get("overflow") and rng.random() < 0.04:
            rule, text = rng.choice(g["overflow"])
            overflow = True
        else:
            rule, text = rng.choice(g["calls"])
            if rng.random() < 0.15:
                text = pool.mutate_input(rng, text)
        pos = 0
        if rng.random() < 0.08 and text:
            pos = rng.randint(0, len(text))
        op = {"op": "parse", "t": target, "rule": rule, "text": text, "pos": pos}
        if overflow:
            op["overflow"] = True  # runs into the recursion limit by itself: never pre-empted
            op["pos"] = 0
        elif rng.random() < 0.2:
            op["defer"] = True
        return op

    def sibling_of(op):
        """A call that differs from `op` in ONE respect that a too-coarse memo would miss:
        same length with one character replaced, same prefix, or another start position."""
        t = op["text"]
        r = rng.random()
        new = dict(op)
        new.pop("defer", None)
        if r < 0.4 and t:
            i = rng.randrange(len(t))
            new["text"] = t[:i] + rng.choice("x1 ,]a") + t[i + 1 :]
        elif r < 0.6 and t:
            new["text"] = t[: rng.randrange(len(t))] + t[-1:]
        elif r < 0.8 and t:
            new["pos"] = rng.randint(0, len(t)) if not op["pos"] else 0
        else:
            new["text"] = t + rng.choice((" ", "x", t[:1]))
        return new

    # ---- setup phase (sequential prefix of the history, run before the clients start)
    setup = []
    if rng.random() < 0.06:
        setup.append({"op": "newbad", "gtext": pool.corrupt_grammar(rng, gsel[rng.choice(gids)]["text"]), "opt": rng.choice(oids)})
    for _ in range(rng.randint(1, 4)):
        op = new_op("setup")
        setup.append(op)
        if rng.random() < 0.15:
            # read-only API before the object's first use (printing fills lazy caches)
            setup.append({"op": "reads", "t": op["id"]})
        if rng.random() < 0.4:
            setup.append(gen_op("setup", op["id"]))
        if rng.random() < 0.5:
            setup.append(parse_op(op["id"]))
    shared = [x for x in objects]

    # swarm knob: a HAMMER run -- every client spends the run parsing with ONE shared object
    # that (with probability 1/2) nobody has used yet, so first-use races and per-call
    # windows on a shared parser / generated module get dense overlap
    hammer = n_clients > 1 and kind != "seq" and rng.random() < 0.35
    hammer_target = None
    if hammer:
        op = new_op("setup")
        # prefer optimized parsers half of the time: lazily compiled regexes, SKIP rule
        if rng.random() < 0.5:
            op["opt"] = "o_shared"
            objects[op["id"]]["opt"] = "o_shared"
        setup.append(op)
        hammer_target = op["id"]
        if rng.random() < 0.45:
            setup.append(gen_op("setup", op["id"]))
            hammer_target = setup[-1]["id"]
        if rng.random() < 0.5:
            setup.append(parse_op(hammer_target))
        shared = [x for x in objects]

    clients = []
    for c in range(n_clients):
        ops = []
        mine: list[str] = []
        n_ops = rng.randint(3, 12)
        if hammer:
            for _ in range(rng.randint(4, 10)):
                ops.append(parse_op(hammer_target) if rng.random() < 0.9 else parse_op(rng.choice(shared)))
            clients.append(ops)
            continue
        while len(ops) < n_ops:
            avail = shared + mine
            r = rng.random()
            if r < 0.08 and len(objects) < 14:
                ops.append(new_op(c))
                mine.append(ops[-1]["id"])
            elif r < 0.14 and len(objects) < 14:
                ps = [x for x in avail if objects[x]["kind"] == "parser"]
                if ps:
                    ops.append(gen_op(c, rng.choice(ps)))
                    mine.append(ops[-1]["id"])
            elif r < 0.17 and len(objects) < 14 and [x for x in avail if objects[x]["kind"] == "parser" and objects[x]["opt"] == "o_none"]:
                src = rng.choice([x for x in avail if objects[x]["kind"] == "parser" and objects[x]["opt"] == "o_none"])
                first = parse_op(src)
                first.pop("defer", None)
                ops.append(first)
                ops.append(newfrom_op(c, src))
                mine.append(ops[-1]["id"])
                ops.append(dict(first))
                # the SAME call on the new parser (whatever the first parser resolved lazily and
                # left on a shared Rule object is now read under another rule table), then any
                ops.append({**first, "t": mine[-1]})
                ops.append(parse_op(mine[-1]))
            elif r < 0.30 and len(objects) < 14:
                # the detector shape: parse A, create an (optimized) B, parse A again
                t = rng.choice(avail)
                first = parse_op(t)
                ops.append(first)
                ops.append(new_op(c))
                mine.append(ops[-1]["id"])
                ops.append(dict(first))
            elif r < 0.33 and churn and len(gids) > 1:
                # object churn: k short-lived parsers of one grammar, all dropped and collected,
                # then k parsers of another grammar -- some of them land on recycled addresses
                kk = rng.randint(2, 8)
                ga, gb = rng.sample(gids, 2)
                custom = [x for x in oids if x not in ("o_none", "o_shared")]
                o = rng.choice(custom) if custom and rng.random() < 0.6 else rng.choice(oids)
                batch = []
                for _ in range(kk):
                    a = new_op(c)
                    a["g"], a["opt"] = ga, o
                    objects[a["id"]].update(g=ga, opt=o)
                    ops.append(a)
                    batch.append(a["id"])
                    if rng.random() < 0.5:
                        ops.append(parse_op(a["id"]))
                for pid in batch:
                    ops.append({"op": "drop", "t": pid})
                for _ in range(kk):
                    b = new_op(c)
                    b["g"], b["opt"] = gb, o
                    objects[b["id"]].update(g=gb, opt=o)
                    ops.append(b)
                    mine.append(b["id"])
                    for _ in range(rng.randint(1, 2)):
                        ops.append(parse_op(b["id"]))
            elif r < 0.36 and len(objects) < 14 and len(gids) > 1:
                # address-reuse shape: make a parser, use it, drop it (and collect), then make a
                # parser for ANOTHER grammar -- likely at the same address -- and use that
                a = new_op(c)
                ops.append(a)
                ops.append(parse_op(a["id"]))
                ops.append({"op": "drop", "t": a["id"]})
                b = new_op(c)
                tries = 0
                while b["g"] == a["g"] and tries < 5:
                    b["g"] = rng.choice(gids)
                    objects[b["id"]]["g"] = b["g"]
                    tries += 1
                b["opt"] = a["opt"]
                objects[b["id"]]["opt"] = a["opt"]
                b["reuse"] = True  # fault: allocate the new parser at the dropped one's address
                ops.append(b)
                mine.append(b["id"])
                for _ in range(rng.randint(1, 3)):
                    ops.append(parse_op(b["id"]))
            elif r < 0.39:
                ops.append({"op": "reads", "t": rng.choice([x for x in avail if objects[x]["kind"] == "parser"] or avail)})
            elif r < 0.405:
                # a from_grammar call that (most likely) FAILS part way through the front end:
                # whatever the scanner / grammar parser / optimizer keep must not reach the
                # parsers made after it
                ops.append({"op": "newbad", "gtext": pool.corrupt_grammar(rng, gsel[rng.choice(gids)]["text"]), "opt": rng.choice(oids)})
            elif r < 0.4075:
                ops.append({"op": "gflood", "n": rng.choice((6, 15, 40)), "m": rng.choice((8, 20)), "seed": rng.randrange(1 << 30)})
            elif r < 0.41:
                ops.append({"op": "gc"})
            elif r < 0.43:
                ops.append({"op": "purge"})
            elif r < 0.45 and mine:
                # half of the drops really free the object (finalizers, weak references and
                # whatever it owned go with it); the others keep its husk for a later `reuse`
                ops.append({"op": "drop", "t": mine.pop(rng.randrange(len(mine))), "husk": rng.random() < 0.5})
            elif r < 0.47:
                # FLOOD: many distinct inputs through one object, results ignored -- whatever is
                # bounded (an LRU of results, of compiled patterns, of positions) gets evicted
                t = rng.choice(avail)
                rule, text = rng.choice(gsel[objects[t]["g"]]["calls"])
                ops.append({"op": "flood", "t": t, "rule": rule, "text": text[:12], "n": rng.choices((40, 150, 300, 1200, 2600), (4, 4, 4, 2, 1))[0]})
            else:
                ops.append(parse_op(rng.choice(avail)))
                # (never a sibling of an overflow input: cut somewhere in the middle it needs
                # about as many frames as the interpreter has, and whether that overflows
                # depends on how deep the caller already is -- not a property of the library)
                if rng.random() < 0.2 and not ops[-1].get("overflow"):
                    ops.append(sibling_of(ops[-1]))
        clients.append(ops)
    # every multi-client run shares at least one object between two clients
    if n_clients > 1 and shared:
        t = rng.choice(shared)
        for c in range(min(2, n_clients)):
            clients[c].insert(rng.randrange(len(clients[c]) + 1), parse_op(t))
            clients[c].insert(rng.randrange(len(clients[c]) + 1), parse_op(t))
    for i, op in enumerate(setup):
        op["oid"] = f"s.{i}"
    for c, ops in enumerate(clients):
        for i, op in enumerate(ops):
            op["oid"] = f"c{c}.{i}"

    # ---- faults: placed inside operations, never while idle; at most 2 aborting ones
    faults = []
    if rng.random() < 0.45:
        for _ in range(rng.randint(1, 2)):
            c = rng.randrange(n_clients)
            cand = [op for op in clients[c] if op["op"] in ("parse", "new", "gen", "newbad")]
            if not cand:
                continue
            op = rng.choice(cand)
            fk = rng.choices(("abort", "exhaust", "gc", "purge"), (4, 3, 1.5, 1))[0]
            if fk == "exhaust":
                if op["op"] != "parse":
                    continue
                # aim the exhaustion at a deep input of a recursive rule
                g = gsel[objects[op["t"]]["g"]]
                if g.get("deep") and rng.random() < 0.8:
                    rule, text = rng.choice(g["deep"])
                    op["rule"], op["text"], op["pos"] = rule, text, 0
                faults.append({"kind": "exhaust", "client": c, "oid": op["oid"], "headroom": rng.choice((12, 25, 40, 60, 90, 140, 200))})
            else:
                est = {"parse": 400, "new": 6000, "gen": 3000, "newbad": 1500}[op["op"]]
                faults.append({"kind": fk, "client": c, "oid": op["oid"], "offset": 1 + int(rng.random() ** 2 * est)})
    return {
        "property": "C15",
        "run_seed": run_seed,
        "job": k,
        "grammars": {g: gsel[g]["text"] for g in gids},
        "optimizers": optimizers,
        "setup": setup,
        "clients": clients,
        "policy": policy,
        "sched_seed": rng.randrange(1 << 30),
        "faults": faults,
    }


def gen_race_plan(run_seed: int, k: int) -> dict:
    """A RACE plan: 30-85 short rounds in one process.  A FRESH round (6-14 per plan)
    creates a parser (and often a module), then lets 2-3 clients parse with that one object
    at once, under a schedule with very few pre-emptions (one PCT change point at a uniformly
    drawn step, or a small per-step probability); a REUSE round (25-70 per plan, about a
    millisecond each) does the same with an object of an earlier round.  First-use windows
    (lazy initialisation that publishes before it is complete) need fresh objects; per-call
    windows on a shared object recur on every call.  Both are a few lines wide and are hit
    with a per-round probability of about one in a hundred when the right clients meet, so
    what finds them is the number of cheap rounds, not the length of a run."""
    rng = random.Random(run_seed)
    cands = dict(pool.FIXED)
    # rounds must stay cheap: small grammars and short inputs only (the big ones are exercised
    # by the ordinary plans)
    cands.update({n: g for n, g in pool.bundled().items() if len(g["text"]) < 2100})
    cands = {n: {**g, "calls": [c2 for c2 in g["calls"] if len(c2[1]) <= 48] or g["calls"][:2]} for n, g in cands.items()}
    names = rng.sample(sorted(cands), rng.randint(2, 4))
    gsel = {n: cands[n] for n in names}
    if rng.random() < 0.3:
        gsel["R0"] = pool.random_grammar(random.Random(common.derive_seed("C15-rg", k % 16, (k // 16) // 4, 0)))
    if rng.random() < 0.1:
        name = rng.choice(sorted(gsel))
        gsel[name + "@alt"] = pool.alt_variant(gsel[name])
    gids = sorted(gsel)
    optimizers = {"o_none": {"passes": None}, "o_shared": {"passes": list(pool.PASS_NAMES), "shared_default": True}, "o1": {"passes": pool.random_optimizer_cfg(rng)}}
    phases = []
    counter = 0
    n_fresh = rng.randint(6, 14)
    n_total = n_fresh + rng.randint(25, 70)
    made_objs: list = []  # (object id, grammar id) usable by reuse rounds
    for r in range(n_total):
        fresh = r < n_fresh or not made_objs
        if fresh:
            g = rng.choice(gids)
            o = rng.choices(("o_none", "o_shared", "o1"), (4, 4, 2))[0]
            counter += 1
            pid = f"p{counter}"
            setup = [{"op": "new", "id": pid, "g": g, "opt": o, "debug": False}]
            target = pid
            if rng.random() < 0.45:
                counter += 1
                setup.append({"op": "gen", "id": f"m{counter}", "p": pid})
                target = f"m{counter}"
                if rng.random() < 0.5:
                    made_objs.append((pid, g))
            made_objs.append((target, g))
        else:
            target, g = rng.choice(made_objs)
            pid = target
            setup = []
        calls = gsel[g]["calls"]
        if fresh and rng.random() < 0.25:
            rule, text = rng.choice(calls)
            setup.append({"op": "parse", "t": target, "rule": rule, "text": text, "pos": 0})
        clients = []
        # what the clients of a round parse: the same call (25 %), different inputs of ONE rule
        # (45 %: shared per-rule / per-node scratch only matters when both clients are inside
        # the same rule with inputs that differ), or any calls of the grammar (30 %)
        r_mode = rng.random()
        first = rng.choice(calls)
        by_rule = [c2 for c2 in calls if c2[0] == first[0]]
        if len(by_rule) < 2 or rng.random() < 0.3:
            by_rule = by_rule + [(first[0], pool.mutate_input(rng, first[1])), (first[0], pool.mutate_input(rng, first[1]))]
        for c in range(rng.choices((2, 3), (7, 3))[0]):
            ops = []
            for _ in range(rng.choices((1, 2, 3), (6, 3, 1))[0]):
                rule, text = first if r_mode < 0.25 else (rng.choice(by_rule) if r_mode < 0.7 else rng.choice(calls))
                ops.append({"op": "parse", "t": target, "rule": rule, "text": text, "pos": 0})
            clients.append(ops)
        builder = fresh and rng.random() < 0.3
        if builder:
            # BUILD-vs-USE round: one more client builds (or generates from) another object
            # while the others parse with the round's target -- and then uses what it built
            counter += 1
            bops = []
            if rng.random() < 0.15:
                bops.append({"op": "newbad", "gtext": pool.corrupt_grammar(rng, gsel[rng.choice(gids)]["text"]), "opt": rng.choice(("o_none", "o_shared", "o1"))})
            if rng.random() < 0.7:
                g2 = rng.choice(gids)
                bops.append({"op": "new", "id": f"p{counter}", "g": g2, "opt": rng.choices(("o_none", "o_shared", "o1"), (2, 5, 3))[0], "debug": rng.random() < 0.2})
                made = f"p{counter}"
                if rng.random() < 0.4:
                    counter += 1
                    bops.append({"op": "gen", "id": f"m{counter}", "p": made})
                    made = f"m{counter}"
                rule, text = rng.choice(gsel[g2]["calls"])
                bops.append({"op": "parse", "t": made, "rule": rule, "text": text, "pos": 0})
            elif pid.startswith("p"):
                bops.append({"op": "gen", "id": f"m{counter}", "p": pid})
                rule, text = rng.choice(calls)
                bops.append({"op": "parse", "t": f"m{counter}", "rule": rule, "text": text, "pos": 0})
            if bops:
                clients.append(bops)
        for i, op in enumerate(setup):
            op["oid"] = f"r{r}.s.{i}"
        for c, ops in enumerate(clients):
            for i, op in enumerate(ops):
                op["oid"] = f"r{r}.c{c}.{i}"
        if rng.random() < 0.6:
            # the length of an operation is not known when the plan is drawn (a short parse
            # is ~100 steps, a JSON document ~7 000, a from_grammar up to 225 000): the span
            # the change points are drawn from is log-uniform
            span = int(2 ** rng.uniform(5, 13 if not builder else 16))
            policy = {"kind": "pct", "points": sorted(rng.randint(1, span) for _ in range(rng.choice((1, 1, 2, 3))))}
        else:
            policy = {"kind": "rand", "p": rng.choice((0.005, 0.02, 0.05, 0.1))}
        phases.append({"setup": setup, "clients": clients, "policy": policy, "sched_seed": rng.randrange(1 << 30), "faults": []})
    return {"property": "C15", "kind": "race", "run_seed": run_seed, "job": k, "grammars": {g: gsel[g]["text"] for g in gids}, "optimizers": optimizers, "phases": phases}


def gen_sweep_plan(run_seed: int, k: int, tier: str = "quick") -> dict:
    """A SWEEP plan: one object kind (grammar, optimizer setting, interpreter | generated), a
    few call pairs (c1, c2), and EVERY single pre-emption of c1 by c2 that matters:

    * cold sweep (up to 6 call pairs) -- a probe round runs c1 twice on a fresh object and
      records the lines each run executes; the lines only the first (cold) run executes are
      once-only code (lazy initialisation, first-use caches).  Then one round per such step k:
      a FRESH object, client 0 runs c1 up to step k, client 1 runs c2 to completion, client 0
      finishes.  When the cold run executes no line of its own, a dozen evenly spaced steps
      are tried on fresh objects all the same.
    * warm sweep (one call pair) -- one object, used before; one round per step k of c1 (all
      of them, or an even stride when c1 is long): per-call scratch that two callers share.

    Which window is hit no longer depends on luck, only the choice of object kind and call
    pair does (that is what the seed draws).  A window that needs two pre-emptions is out of
    reach of a sweep; the race plans keep sampling those."""
    rng = random.Random(run_seed)
    fixed = sorted(pool.FIXED)
    small = sorted(n for n, g in pool.bundled().items() if len(g["text"]) < 2100)
    r = rng.random()
    if r < 0.6 or not small:
        name = rng.choice(fixed)
        g = pool.FIXED[name]
    elif r < 0.87:
        name = rng.choice(small)
        g = pool.bundled()[name]
    else:
        name, g = "R0", pool.random_grammar(random.Random(common.derive_seed("C15-rg", k % 16, (k // 16) // 4, 0)))
    calls = [c for c in g["calls"] if len(c[1]) <= 48] or g["calls"][:2]
    flavour = rng.choices(("cold", "warm", "history", "abort", "exhaust", "twin", "marathon"), (5, 3, 2, 2, 1 if g.get("deep") else 0, 3, 1))[0]
    if flavour == "marathon":
        # MARATHON: no threads; the long-running process.  Every fixed pool grammar, every small
        # bundled one and a few seeded ones, each under a seeded optimizer setting, built AND
        # generated one after the other in one process (40-odd parsers and modules, well over a
        # thousand distinct generated constants), some calls right away and some calls on every
        # object at the end.  Whatever is bounded process-wide -- a table cleared when it is
        # full, a pool that recycles, a counter that wraps -- passes its bound here.
        gs = {n: pool.FIXED[n] for n in fixed}
        gs.update({n: pool.bundled()[n] for n in small})
        for i in range(3):
            gs[f"R{i}"] = pool.random_grammar(random.Random(common.derive_seed("C15-rg", k % 16, (k // 16) // 4, i)))
        names = sorted(gs)
        rng.shuffle(names)
        names = names + rng.sample(names, min(len(names), 10))  # some grammars twice, under another setting
        optimizers = {"o_none": {"passes": None}, "o_shared": {"passes": list(pool.PASS_NAMES), "shared_default": True}, "o1": {"passes": pool.random_optimizer_cfg(rng)}, "o2": {"passes": pool.random_optimizer_cfg(rng)}}
        entries = []
        for n in names:
            cs = gs[n]["calls"]
            entries.append({"g": n, "opt": rng.choices(("o_none", "o_shared", "o1", "o2"), (3, 4, 2, 2))[0], "calls": [list(c) for c in rng.sample(cs, min(len(cs), 4))]})
        for _ in range(rng.randint(1, 2)):
            entries.insert(rng.randrange(1, len(entries)), {"gflood": {"n": rng.choice((12, 25, 45)), "m": rng.choice((8, 20, 30)), "seed": rng.randrange(1 << 30)}})
        # CYCLES: a few hundred rules of noise, then one pool grammar built and generated again
        # (and used), over and over -- a bounded table that restarts when it is full restarts at a
        # different place of every cycle, sooner or later in the middle of a generate() that matters
        for _ in range(8 if tier == "quick" else 50):
            entries.append({"gflood": {"n": rng.choice((5, 7, 9, 11, 13)), "m": rng.choice((12, 20)), "seed": rng.randrange(1 << 30)}})
            n = rng.choice(names)
            cs = gs[n]["calls"]
            entries.append({"g": n, "opt": rng.choices(("o_none", "o_shared", "o1", "o2"), (3, 4, 2, 2))[0], "calls": [list(c) for c in rng.sample(cs, min(len(cs), 4))]})
        return {"property": "C15", "kind": "sweep", "run_seed": run_seed, "job": k, "grammars": {n: gs[n]["text"] for n in gs}, "optimizers": optimizers,
                "g": names[0], "opt": "o_none", "mode": "both", "pairs": [], "marathon": entries, "flavour": flavour}
    if flavour == "twin":
        # TWIN sweep: no threads.  Two grammars that share rule names (and often whole rule
        # texts) -- the pool's twin pairs, a grammar and its variant under another BUILTIN table,
        # a random grammar and its reversed-choice twin -- built and generated one after the
        # other in one process, then EVERY pool call of the second on its parser and its module,
        # and some calls of the first again.  Whatever is keyed by a name or a rule text meets
        # its collision here.
        pairs_ = [("P-leak", "P-leak2"), ("P-builtin", "P-builtin2"), ("P-twin1", "P-twin2")]
        r = rng.random()
        same = r < 0.45
        if same:
            # SETTINGS sweep: ONE grammar under fourteen optimizer settings -- none, the shared
            # default, every default pass alone, the default list minus every single pass, two
            # seeded ones -- built and generated one after the other in a seeded order, then every
            # pool call on every parser and every module.  ("including ones built with a different
            # optimizer setting": whatever one setting leaves behind -- rule source, compiled
            # patterns, rewritten nodes -- must not reach another's objects.)
            optimizers = {"o_none": {"passes": None}, "o_shared": {"passes": list(pool.PASS_NAMES), "shared_default": True}}
            for pn in pool.PASS_NAMES:
                optimizers["s_" + pn.replace(" ", "_")] = {"passes": [pn]}
                optimizers["m_" + pn.replace(" ", "_")] = {"passes": [x for x in pool.PASS_NAMES if x != pn]}
            for i in range(2):
                ps = pool.random_optimizer_cfg(rng)
                if ps is not None:
                    optimizers[f"o{i + 1}"] = fold_fixed_point({"passes": ps, "fixed_point": pool.random_fixed_point(rng, ps)})
            order = sorted(optimizers)
            rng.shuffle(order)
            if name not in fixed and len(g["text"]) >= 2100:
                name = rng.choice(fixed)
                g = pool.FIXED[name]
            cs = [list(c) for c in rng.sample(g["calls"], min(len(g["calls"]), 16))]
            return {
                "property": "C15", "kind": "sweep", "run_seed": run_seed, "job": k, "grammars": {name: g["text"]}, "optimizers": optimizers,
                "g": name, "opt": order[0], "mode": "both", "pairs": [], "calls": cs, "settings": order, "flavour": flavour,
            }
        if same:
            # the SAME grammar under two optimizer settings (what one setting's parser or module
            # leaves behind -- rule source, compiled patterns, rewritten nodes -- must not reach
            # the other's)
            a = b = name
            ga = gb = g
        elif r < 0.7:
            a, b = rng.choice(pairs_)
            ga, gb = pool.FIXED[a], pool.FIXED[b]
        elif r < 0.87:
            a = rng.choice(fixed)
            ga = pool.FIXED[a]
            b, gb = a + "@alt", pool.alt_variant(ga)
        else:
            gseed = common.derive_seed("C15-rg", k % 16, (k // 16) // 4, 1)
            a, ga = "R1", pool.random_grammar(random.Random(gseed))
            b, gb = "R1t", pool.random_grammar(random.Random(gseed), reverse_choices=True)
        if rng.random() < 0.5:
            a, ga, b, gb = b, gb, a, ga
        optimizers = {"o_none": {"passes": None}, "o_shared": {"passes": list(pool.PASS_NAMES), "shared_default": True}, "o1": {"passes": pool.random_optimizer_cfg(rng)}, "o2": {"passes": pool.random_optimizer_cfg(rng)}}
        o1_, o2_ = (rng.choices(("o_none", "o_shared", "o1", "o2"), (3, 3, 3, 3))[0] for _ in range(2))
        if same:
            for _ in range(8):
                if optimizers[o1_]["passes"] != optimizers[o2_]["passes"]:
                    break
                o2_ = rng.choice(("o_none", "o_shared", "o1", "o2"))
        ca = [list(c) for c in rng.sample(ga["calls"], min(len(ga["calls"]), 6))]
        cb = [list(c) for c in rng.sample(gb["calls"], min(len(gb["calls"]), 36))]
        return {
            "property": "C15", "kind": "sweep", "run_seed": run_seed, "job": k, "grammars": {a: ga["text"], b: gb["text"]}, "optimizers": optimizers,
            "g": a, "g2": b, "opt": o1_, "opt2": o2_ if (same or rng.random() < 0.6) else o1_, "mode": "both", "pairs": [], "calls_a": ca, "calls": cb, "flavour": flavour,
        }
    if flavour == "history":
        # HISTORY sweep: no threads.  For every pool call c_i: a fresh object, c_i as the FIRST
        # call ever made with it, then every pool call c_j -- all ordered pairs (first call on
        # the object, later call), plus whatever the later calls leave to each other
        hist_calls = [list(c) for c in rng.sample(calls, min(len(calls), 36))]
        for _ in range(40):
            if len(hist_calls) >= 16:
                break
            r0, t0 = rng.choice(calls)
            v = [r0, pool.mutate_input(rng, t0)]
            if v not in hist_calls:
                hist_calls.append(v)
        optimizers = {"o_none": {"passes": None}, "o_shared": {"passes": list(pool.PASS_NAMES), "shared_default": True}, "o1": {"passes": pool.random_optimizer_cfg(rng)}}
        return {
            "property": "C15", "kind": "sweep", "run_seed": run_seed, "job": k, "grammars": {name: g["text"]}, "optimizers": optimizers, "g": name,
            "opt": rng.choices(("o_none", "o_shared", "o1"), (4, 4, 2))[0], "mode": "generated" if rng.random() < 0.4 else "interpreter",
            "pairs": [], "calls": hist_calls, "flavour": flavour,
        }
    pairs = []
    if flavour == "exhaust":
        # c1 is a deeply nested input of a recursive rule: the sweep is over the head-room
        calls = [tuple(c) for c in g["deep"]] + calls
    for c1 in ([calls[rng.randrange(len(g["deep"]))]] if flavour == "exhaust" else rng.sample(calls, min(len(calls), 6 if flavour == "cold" else 2 if flavour == "abort" else 1))):
        r = rng.random()
        if r < 0.4:
            c2 = c1
        elif r < 0.85:
            same = [c for c in calls if c[0] == c1[0] and c != c1]
            c2 = rng.choice(same) if same and rng.random() < 0.6 else (c1[0], pool.mutate_input(rng, c1[1]))
        else:
            c2 = rng.choice(calls)
        pairs.append([list(c1), list(c2)])
    optimizers = {"o_none": {"passes": None}, "o_shared": {"passes": list(pool.PASS_NAMES), "shared_default": True}, "o1": {"passes": pool.random_optimizer_cfg(rng)}}
    return {
        "property": "C15", "kind": "sweep", "run_seed": run_seed, "job": k, "grammars": {name: g["text"]}, "optimizers": optimizers, "g": name,
        "opt": rng.choices(("o_none", "o_shared", "o1"), (4, 4, 2))[0], "mode": "generated" if rng.random() < 0.4 else "interpreter",
        "pairs": pairs, "flavour": flavour, "max_rounds": 200,
        # half of the warm sweeps add a SECOND pre-emption per round: client 1 is itself pre-empted
        # at a seeded step and client 0 runs on (a hand-off torn in two needs both)
        "second": rng.randrange(1, 1 << 30) if flavour == "warm" and rng.random() < 0.5 else 0,
    }


def sweep_phases(plan):
    """Generator of the phases of a sweep plan; receives the Scheduler of each phase it
    yielded (the probe phase's line logs decide which steps are swept)."""
    g, opt, gen_mod = plan["g"], plan["opt"], plan["mode"] == "generated"
    n_made = [0]
    live: list = []

    def fresh():
        n_made[0] += 1
        pid = f"p{n_made[0]}"
        setup = [{"op": "drop", "t": x, "husk": False, "nogc": True} for x in live]
        del live[:]
        setup.append({"op": "new", "id": pid, "g": g, "opt": opt, "debug": False})
        live.append(pid)
        if gen_mod:
            setup.append({"op": "gen", "id": f"m{n_made[0]}", "p": pid})
            live.append(f"m{n_made[0]}")
        return setup, live[-1]

    def parse(t, c, oid=None):
        op = {"op": "parse", "t": t, "rule": c[0], "text": c[1], "pos": 0}
        if oid:
            op["oid"] = oid
        return op

    def number(setup, tag):
        for i, op in enumerate(setup):
            op["oid"] = f"{tag}.s.{i}"
        return setup

    only = plan.get("only")  # [[pair index, step], ...]: replay of single rounds
    if plan["flavour"] == "marathon":
        ops = []
        for i, en in enumerate(plan["marathon"]):
            if "gflood" in en:
                ops.append({"op": "gflood", **en["gflood"], "oid": f"ma.flood{i}"})
                continue
            ops += [{"op": "new", "id": f"p{i}", "g": en["g"], "opt": en["opt"], "debug": False, "oid": f"ma.new{i}"}, {"op": "gen", "id": f"m{i}", "p": f"p{i}", "oid": f"ma.gen{i}"}]
            for j, c in enumerate(en["calls"][:2]):
                ops += [parse(f"p{i}", c, f"ma.e{i}.{j}.i"), parse(f"m{i}", c, f"ma.e{i}.{j}.g")]
        for i, en in enumerate(plan["marathon"]):
            if "gflood" in en:
                continue
            for j, c in enumerate(en["calls"]):
                ops += [parse(f"p{i}", c, f"ma.z{i}.{j}.i"), parse(f"m{i}", c, f"ma.z{i}.{j}.g")]
        yield {"setup": ops, "clients": [], "schedule": {"first": None, "traced": False, "yields": []}, "faults": [], "history_first": 0}
        return
    if plan["flavour"] == "twin" and plan.get("settings"):
        ops = []
        for i, oid in enumerate(plan["settings"]):
            ops += [{"op": "new", "id": f"p{i}", "g": plan["g"], "opt": oid, "debug": False, "oid": f"tw.new{i}"}, {"op": "gen", "id": f"m{i}", "p": f"p{i}", "oid": f"tw.gen{i}"}]
        for i in range(len(plan["settings"])):
            for j, c in enumerate(plan["calls"]):
                if only is None or [i, j] in only:
                    ops += [parse(f"p{i}", c, f"tw.s{i}.b{j}.i"), parse(f"m{i}", c, f"tw.s{i}.b{j}.g")]
        yield {"setup": ops, "clients": [], "schedule": {"first": None, "traced": False, "yields": []}, "faults": [], "history_first": 0}
        return
    if plan["flavour"] == "twin":
        def both(p_, m_, c, tag):
            return [parse(p_, c, f"{tag}.i"), parse(m_, c, f"{tag}.g")]

        ops = [{"op": "new", "id": "pA", "g": plan["g"], "opt": plan["opt"], "debug": False, "oid": "tw.newA"}, {"op": "gen", "id": "mA", "p": "pA", "oid": "tw.genA"}]
        for i, c in enumerate(plan["calls_a"][:3]):
            ops += both("pA", "mA", c, f"tw.a{i}")
        ops += [{"op": "new", "id": "pB", "g": plan["g2"], "opt": plan["opt2"], "debug": False, "oid": "tw.newB"}, {"op": "gen", "id": "mB", "p": "pB", "oid": "tw.genB"}]
        for j, c in enumerate(plan["calls"]):
            if only is None or any(jj == j for _, jj in only):
                ops += both("pB", "mB", c, f"tw.b{j}")
        for i, c in enumerate(plan["calls_a"]):
            ops += both("pA", "mA", c, f"tw.z{i}")
        yield {"setup": ops, "clients": [], "schedule": {"first": None, "traced": False, "yields": []}, "faults": [], "history_first": 0}
        return
    if plan["flavour"] == "history":
        calls = plan["calls"]
        for i, ci in enumerate(calls):
            later = list(enumerate(calls))
            if only is not None:
                later = [(j, calls[j]) for ii, j in only if ii == i and 0 <= j < len(calls)]
                if not later:
                    continue
            setup, target = fresh()
            ops = number(setup, f"h{i}")
            ops.append(parse(target, ci, f"h{i}.first"))
            ops.extend(parse(target, cj, f"h{i}.then{j}") for j, cj in later)
            yield {"setup": ops, "clients": [], "schedule": {"first": None, "traced": False, "yields": []}, "faults": [], "history_first": i}
        return
    for j, (c1, c2) in enumerate(plan["pairs"]):
        flavour = plan["flavour"]
        only_ks = None
        if only is not None:
            only_ks = [k for jj, k in only if jj == j]
            if not only_ks:
                continue
        if only_ks is not None and flavour == "cold":
            ks = only_ks
            setup, target = fresh()
            first_setup = setup
            len_other = 0
        else:
            # (a replay of single rounds of a warm / fault sweep runs the probe too: the rounds
            # use the probe's object, and the second pre-emption is drawn from the probe's length)
            # probe: c1 cold, c1 warm, c2 warm -- one client, traced, line logs kept
            setup, target = fresh()
            sc = yield {
                "setup": number(setup, f"probe{j}"), "clients": [[parse(target, c1, f"probe{j}.c0.0"), parse(target, c1, f"probe{j}.c0.1"), parse(target, c2, f"probe{j}.c0.2")]],
                "schedule": {"first": 0, "traced": True, "yields": []}, "faults": [], "record_lines": True,
            }
            logs = sc.line_logs or {}
            cold, warm, other = logs.get(f"probe{j}.c0.0", []), logs.get(f"probe{j}.c0.1", []), logs.get(f"probe{j}.c0.2", [])
            len_other = len(other)
            # a round costs about len(c1) + len(c2) steps: long calls are swept at an even stride
            cap = max(12, min(plan.get("max_rounds", 300), 500_000 // max(1, len(warm) + len(other))))
            if flavour == "cold":
                seen = set(warm)
                novel = [i + 1 for i, ln in enumerate(cold) if ln not in seen]
                # (the step after a once-only line is a window edge too)
                ks = sorted(set(novel) | {i + 1 for i in novel if i + 1 <= len(cold)})
                cap = min(cap, 64)
                if not ks:
                    ks = list(range(1, len(cold) + 1))
                    cap = 12
            elif flavour == "exhaust":
                ks = list(range(8, 236, 3))  # frames of head-room left to the descent
                cap = max(cap, 40)
            else:
                ks = list(range(1, len(warm) + 1))
            if len(ks) > cap:
                ks = ks[:: -(-len(ks) // cap)]
            if only_ks is not None:
                ks = only_ks
            first_setup = None
        if flavour in ("abort", "exhaust"):
            # FAULT sweep, one client: c1 is aborted at step k (abort) or runs out of frames with k
            # of them left (exhaust); then c2 and c1 again on the same object.  An abort at every
            # step reaches every place where something is set and not yet unset.
            for n, k in enumerate(ks):
                setup = first_setup if (n == 0 and first_setup is not None) else []
                a = parse(target, c1, f"w{j}_{k}.c0.0")
                fault = {"kind": "abort", "client": 0, "oid": a["oid"], "offset": k} if flavour == "abort" else {"kind": "exhaust", "client": 0, "oid": a["oid"], "headroom": k}
                yield {"setup": number(setup, f"w{j}_{k}"), "clients": [[a, parse(target, c2, f"w{j}_{k}.c0.1"), parse(target, c1, f"w{j}_{k}.c0.2")]],
                       "schedule": {"first": 0, "traced": True, "yields": []}, "faults": [fault], "sweep_k": k, "flavour": flavour}
            continue
        for n, k in enumerate(ks):
            if flavour == "cold":
                setup, target = (first_setup, target) if (n == 0 and first_setup is not None) else fresh()
            else:
                setup = first_setup if (n == 0 and first_setup is not None) else []
            a = parse(target, c1, f"w{j}_{k}.c0.0")
            b = parse(target, c2, f"w{j}_{k}.c1.0")
            ys = [[0, a["oid"], k, 1]]
            if plan.get("second") and flavour == "warm":
                j2 = 1 + common.derive_seed("C15-second", plan["second"], j, k) % max(1, len_other)
                ys.append([1, b["oid"], j2, 0])
            yield {"setup": number(setup, f"w{j}_{k}"), "clients": [[a], [b]], "schedule": {"first": 0, "traced": True, "yields": ys}, "faults": [], "sweep_k": k, "flavour": flavour}


def gen_hashseed_job(seed: int, k: int) -> dict:
    rng = random.Random(seed)
    cands = dict(pool.FIXED)
    cands.update(pool.bundled())
    if rng.random() < 0.3:
        cands = {"R": pool.random_grammar(rng)}
    name = rng.choice(sorted(cands))
    g = cands[name]
    calls = [list(c) + [0] for c in rng.sample(g["calls"], min(len(g["calls"]), rng.randint(3, 8)))]
    return {"property": "C15", "kind": "hashseed", "job": k, "hashseed": 0, "gname": name, "gtext": g["text"], "passes": pool.random_optimizer_cfg(rng), "mode": rng.choice(("interpreter", "generated")), "calls": calls}


# ======================================================================= observation


def tree_of(pairs):
    """The tree as a FLAT pre-order list of [depth, rule name, start, end, tag] (a faithful
    encoding; built iteratively so that the harness never recurses on the depth of a tree
    the code under test returned)."""
    out = []
    stack = [(0, p) for p in reversed(list(pairs))]
    while stack:
        d, p = stack.pop()
        out.append([d, p.name, p.start, p.end, p.tag])
        for c in reversed(list(p.children)):
            stack.append((d + 1, c))
    return out


def surface_of(pairs):
    """What the result object says through its non-recursive accessors, for the first few
    top-level pairs: the matched text and the line/column of its start.  Both are functions of
    the tree and the input; they are observed because a result is a value -- what it reports
    must not depend on anything that happened besides the call that returned it."""
    out = []
    for p in list(pairs)[:3]:
        try:
            t = str(p)
            out.append([hashlib.blake2b(t.encode("utf-8", "surrogatepass"), digest_size=6).hexdigest(), len(t), list(p.line_col())])
        except RecursionError:
            raise
        except Exception as e:  # noqa: BLE001 - the exception type is the observation
            out.append(["exc", type(e).__name__])
    return out


def labelset(d):
    return sorted([str(k), sorted({repr(x) for x in v})] for k, v in d.items())


def call_raw(target, rule, text, pos, reraise=()):
    """Make one parse() call; return the live result object (Pairs or exception)."""
    from pest import PestParsingError  # noqa: PLC0415

    try:
        return ("ok", target.parse(rule, text, start_pos=pos))
    except PestParsingError as e:
        return ("fail", e)
    except reraise:
        raise
    except Exception as e:  # noqa: BLE001 - the exception *type* is the observation
        return ("exc", type(e).__name__)


def reduce_raw(raw):
    """Reduce a live result to what C15 promises (tree; failure position and label sets)."""
    if raw[0] == "ok":
        return ["ok", tree_of(raw[1]), surface_of(raw[1])]
    if raw[0] == "fail":
        st = raw[1].state
        return ["fail", st.furthest_pos, labelset(st.furthest_expected), labelset(st.furthest_unexpected)]
    return ["exc", raw[1]]


def observe_call(target, rule, text, pos, reraise=()):
    """Make one parse() call and reduce its result at once."""
    return reduce_raw(call_raw(target, rule, text, pos, reraise))


def make_optimizer(spec):
    from pest.grammar import optimizer as om  # noqa: PLC0415

    if spec.get("passes") is None:
        return None
    if spec.get("shared_default"):
        return om.DEFAULT_OPTIMIZER
    import dataclasses  # noqa: PLC0415

    by_name = {s.name: s for s in om.DEFAULT_OPTIMIZER_PASSES}
    if list(spec["passes"]) == [s.name for s in om.DEFAULT_OPTIMIZER_PASSES] and spec.get("share_list"):
        return om.Optimizer(om.DEFAULT_OPTIMIZER_PASSES)
    steps = []
    made: dict = {}
    for n in spec["passes"]:
        if n.endswith("*"):
            # one fixed-point step object per Optimizer and pass, as a user would write it
            if n not in made:
                made[n] = dataclasses.replace(by_name[n[:-1]], fixed_point=True)
            steps.append(made[n])
        else:
            steps.append(by_name[n])
    return om.Optimizer(steps)


def load_module(src, name):
    mod = types.ModuleType(name)
    exec(compile(src, f"<gen:{name}>", "exec"), mod.__dict__)  # noqa: S102
    return mod


# ============================================================ executing a plan (child)


def _depth():
    f = sys._getframe()
    n = 0
    while f is not None:
        n += 1
        f = f.f_back
    return n


def with_pad(headroom, fn):
    """Run fn() with only `headroom` Python frames left before RecursionError."""
    n = sys.getrecursionlimit() - _depth() - headroom - 4

    def rec(i):
        if i <= 0:
            return fn()
        return rec(i - 1)

    return rec(max(0, n))


def execute_plan(plan) -> dict:
    """Child process: run the explicit or policy-driven plan; return observations."""
    gc.disable()
    if plan.get("kind") == "refgroup":
        # hash-seed independence job: this zygote's interpreter runs under plan["hashseed"]
        return ref_group_child((plan["gtext"], plan["passes"], plan["mode"], [tuple(c) for c in plan["calls"]]))
    from pest import Parser  # noqa: PLC0415

    class SimParser(Parser):
        """Parser with one harness-side difference: __new__ can hand out the *husk* of a
        dropped parser (same object, __dict__ cleared) instead of fresh memory.  This is the
        `reuse` fault -- the address of a collected object being recycled for a new one --
        made deterministic; CPython decides that by allocator state the simulator does not
        own.  Everything else, including from_grammar and __init__, is the real code."""

        _husks: list = []
        _reuse_for: set = set()

        def __new__(cls, *a, **k):
            if cls._husks and sched.current in cls._reuse_for:
                cls._reuse_for.discard(sched.current)
                # (a recycled address holds an object of the class being created: only a husk of
                # exactly this class is handed out)
                for i in range(len(cls._husks) - 1, -1, -1):
                    if type(cls._husks[i]) is cls:
                        sched.fired.append({"kind": "reuse", "client": sched.current, "oid": sched.cur_oid[sched.current] if sched.current >= 0 else None})
                        return cls._husks.pop(i)
            return super().__new__(cls)

    grammars = plan["grammars"]
    optim_specs = plan["optimizers"]
    optim_objs: dict = {}
    objs: dict = {}  # id -> dict(kind, obj, g, passes)
    results: list[dict] = []
    history: list = []  # executed order of (client, oid) -- for probes
    # rebound for every phase (a plan is one phase, a race plan many -- see run_phase)
    sched: Scheduler = None  # type: ignore[assignment]
    clients: list = []
    exhaust: dict = {}

    def get_opt(oid):
        if oid not in optim_objs:
            optim_objs[oid] = make_optimizer(optim_specs[oid])
        return optim_objs[oid]

    def do_op(me, op):
        kind = op["op"]
        rec = {"oid": op["oid"], "client": me, "op": kind, "status": "done"}
        if kind == "new":
            spec = optim_specs[op["opt"]]
            if op.get("reuse"):
                SimParser._reuse_for.add(me)
            try:
                p = pool.parser_class_for(grammars[op["g"]], SimParser).from_grammar(grammars[op["g"]], optimizer=get_opt(op["opt"]), debug=bool(op.get("debug")))
            except Exception as e:  # noqa: BLE001
                rec["build"] = ["exc", type(e).__name__]
                rec["bkey"] = [op["g"], spec.get("passes"), "interpreter"]
                return rec
            objs[op["id"]] = {"kind": "parser", "obj": p, "g": op["g"], "passes": spec.get("passes")}
            rec["build"] = ["ok"]
            rec["bkey"] = [op["g"], spec.get("passes"), "interpreter"]
        elif kind == "newbad":
            try:
                pool.parser_class_for(op["gtext"], SimParser).from_grammar(op["gtext"], optimizer=get_opt(op["opt"]))
                rec["accepted"] = True  # the corruption happened to be a valid grammar
            except Exception as e:  # noqa: BLE001 - the failure is the point; nothing to compare
                rec["rejected"] = type(e).__name__
        elif kind == "newfrom":
            src_obj = objs.get(op["src"])
            spec = optim_specs[op["opt"]]
            if src_obj is None or src_obj["kind"] != "parser" or src_obj["passes"] is not None:
                rec["status"] = "skipped"
                return rec
            rec["bkey"] = [src_obj["g"], spec.get("passes"), "interpreter"]
            try:
                p = type(src_obj["obj"])(src_obj["obj"].rules, src_obj["obj"].doc, optimizer=get_opt(op["opt"]), debug=bool(op.get("debug")))
            except Exception as e:  # noqa: BLE001
                rec["build"] = ["exc", type(e).__name__]
                return rec
            objs[op["id"]] = {"kind": "parser", "obj": p, "g": src_obj["g"], "passes": spec.get("passes")}
            rec["build"] = ["ok"]
        elif kind == "gen":
            src_obj = objs.get(op["p"])
            if src_obj is None or src_obj["kind"] != "parser":
                rec["status"] = "skipped"
                return rec
            try:
                mod = load_module(src_obj["obj"].generate(), op["id"])
            except Exception as e:  # noqa: BLE001
                rec["build"] = ["exc", type(e).__name__]
                rec["bkey"] = [src_obj["g"], src_obj["passes"], "generated"]
                return rec
            objs[op["id"]] = {"kind": "module", "obj": mod, "g": src_obj["g"], "passes": src_obj["passes"]}
            rec["build"] = ["ok"]
            rec["bkey"] = [src_obj["g"], src_obj["passes"], "generated"]
        elif kind == "parse":
            t = objs.get(op["t"])
            if t is None:
                rec["status"] = "skipped"
                return rec
            mode = "interpreter" if t["kind"] == "parser" else "generated"
            rec["key"] = [t["g"], t["passes"], mode, op["rule"], op["text"], op["pos"]]
            raw = call_raw(t["obj"], op["rule"], op["text"], op["pos"], reraise=(RecursionError,) if (me, op["oid"]) in exhaust else ())
            if op.get("defer"):
                # the caller keeps the Pairs / PestParsingError and looks at it only after
                # everything else in this phase has happened: a result is a value, what it
                # says must not depend on calls made after it was returned
                deferred.append((rec, raw))
                rec["obs"] = None
            else:
                rec["obs"] = reduce_raw(raw)
        elif kind == "flood":
            t = objs.get(op["t"])
            if t is None:
                rec["status"] = "skipped"
                return rec
            # noise, not a scheduling target: runs untraced (300 parses of a large grammar would
            # otherwise eat the operation's step budget) and is never pre-empted
            sched.disarm()
            try:
                for i in range(op["n"]):
                    call_raw(t["obj"], op["rule"], f"{op['text']}{i}", 0)
            finally:
                sched.arm()
        elif kind == "gflood":
            # GRAMMAR FLOOD: n synthetic grammars nobody else uses, built with the default
            # optimizer and generated (not exec'ed), everything dropped at once -- noise that
            # fills whatever is bounded process-wide; untraced, never pre-empted, nothing compared
            sched.disarm()
            try:
                for i in range(op["n"]):
                    try:
                        SimParser.from_grammar(pool.flood_grammar(op["seed"], i, op["m"])).generate()
                    except Exception as e:  # noqa: BLE001
                        rec["gflood_exc"] = type(e).__name__
                        break
            finally:
                sched.arm()
        elif kind == "reads":
            t = objs.get(op["t"])
            if t is None or t["kind"] != "parser":
                rec["status"] = "skipped"
                return rec
            p = t["obj"]
            try:
                str(p)
                p.tree_view()
                for r in list(p.rules.values())[-3:]:
                    str(r)
            except Exception as e:  # noqa: BLE001
                rec["reads_exc"] = type(e).__name__
        elif kind == "drop":
            gone = objs.pop(op["t"], None)
            if gone is not None and gone["kind"] == "parser" and op.get("husk", True):
                # the object's state is gone, its memory is kept for a later `reuse`
                gone["obj"].__dict__.clear()
                SimParser._husks.append(gone["obj"])
            del gone
            if not op.get("nogc"):
                gc.collect()
        elif kind == "gc":
            gc.collect()
        elif kind == "purge":
            import regex  # noqa: PLC0415

            regex.purge()
        return rec

    def run_op(me, op):
        headroom = exhaust.get((me, op["oid"]))
        budget = sys.getrecursionlimit()
        try:
            return run_op_inner(me, op, headroom)
        finally:
            # the result of parsing deeply nested input depends on the interpreter's
            # recursion budget; a call that leaves the process-wide budget changed makes
            # every later result depend on it
            if sys.getrecursionlimit() != budget:
                budget_changes.append({"oid": op["oid"], "op": op["op"], "before": budget, "after": sys.getrecursionlimit(), "mode": "interpreter" if (objs.get(op.get("t") or "") or {}).get("kind") != "module" else "generated"})
                sys.setrecursionlimit(budget)

    def run_op_inner(me, op, headroom):
        sched.arm()
        try:
            if headroom is not None:
                rec = with_pad(headroom, lambda: do_op(me, op))
            else:
                rec = do_op(me, op)
        except SimAbort:
            rec = {"oid": op["oid"], "client": me, "op": op["op"], "status": "aborted"}
        except RecursionError:
            sched.fired.append({"kind": "exhaust", "client": me, "oid": op["oid"], "headroom": headroom})
            rec = {"oid": op["oid"], "client": me, "op": op["op"], "status": "aborted-exhaust"}
        finally:
            sched.disarm()
        rec["steps"] = sched.op_steps[me] if me >= 0 else 0
        return rec

    crashed: list[str] = []
    deferred: list = []
    budget_changes: list = []

    def run_phase(ph):
        """One phase = a sequential setup prefix (main thread, never pre-empted, never
        faulted) followed by the clients of the phase under their own scheduler.  Process
        state (objects, optimizers, husks, everything python-pest keeps) carries over."""
        nonlocal sched, clients, exhaust
        clients = ph["clients"]
        n = len(clients)
        explicit = ph.get("schedule")
        sched = Scheduler(
            n,
            (common.PEST_SRC, "<gen:"),
            policy=ph.get("policy"),
            sched_seed=ph.get("sched_seed", 0),
            explicit=None if explicit is None else explicit["yields"],
            faults=ph.get("faults", ()),
            hot_funcs=HOT_FUNCS,
            # an explicit replay is traced exactly when the run it replays was
            force_trace=bool(plan.get("force_trace")) or bool((explicit or {}).get("traced")),
            # bounded liveness: the largest operation in the pool (optimized from_grammar of
            # sql.pest) takes 225 000 steps; an operation may take ten times that, a phase
            # forty times
            step_cap=plan.get("step_cap", 10_000_000),
            op_step_cap=plan.get("op_step_cap", 2_500_000),
        )
        sched.op_order = [{op["oid"]: i for i, op in enumerate(ops)} for ops in clients]
        if ph.get("record_lines"):
            sched.line_logs = {}
        if explicit is not None and explicit.get("first") is not None and 0 <= explicit["first"] < n:
            sched.set_start_hint(explicit["first"])
        exhaust = {(f["client"], f["oid"]): f["headroom"] for f in ph.get("faults", ()) if f["kind"] == "exhaust"}
        for op in ph.get("setup", ()):
            try:
                rec = do_op(-1, op)
            except RecursionError:
                rec = {"oid": op["oid"], "client": -1, "op": op["op"], "status": "aborted-exhaust"}
            rec["steps"] = 0
            results.append(rec)
            history.append((-1, op["oid"]))
        if n:
            threads = [threading.Thread(target=client, args=(i,), name=f"sim-client-{i}", daemon=True) for i in range(n)]
            for t in threads:
                t.start()
            sched.start()
            if not sched.done_evt.wait(timeout=plan.get("wall_cap_s", 25.0 if not sched.traced else 90.0)):
                raise RuntimeError("simulated clients did not finish (harness deadlock or hang)")
            for t in threads:
                t.join(timeout=5)
        if crashed:
            raise RuntimeError("; ".join(crashed))
        for rec, raw in deferred:
            try:
                rec["obs"] = reduce_raw(raw)
            except Exception as e:  # noqa: BLE001
                rec["obs"] = ["exc-on-late-read", type(e).__name__]
            rec["deferred"] = True
        deferred.clear()
        return sched

    def client(me):
        sched.wait_turn(me)
        try:
            for idx, op in enumerate(clients[me]):
                sched.begin_op(me, op["oid"], idx, op["op"], op.get("t") or op.get("id") or "", no_preempt=(me, op["oid"]) in exhaust or bool(op.get("overflow")))
                try:
                    rec = run_op(me, op)
                except StepCap:
                    results.append({"oid": op["oid"], "client": me, "op": op["op"], "status": "capped", "steps": sched.op_steps[me]})
                    break
                results.append(rec)
                history.append((me, op["oid"]))
                if sched.capped:
                    break
                sched.end_op(me)
        except BaseException as e:  # noqa: BLE001 - harness failure inside a client thread
            import traceback  # noqa: PLC0415

            crashed.append(f"client {me}: {type(e).__name__}: {e}\n{traceback.format_exc()[-1500:]}")
        finally:
            sys.settrace(None)
            sched.thread_done(me)

    scheds = []
    swept = []
    if plan.get("kind") == "sweep":
        src = sweep_phases(plan)
        try:
            ph = next(src)
            while True:
                scheds.append(run_phase(ph))
                if "sweep_k" in ph:
                    swept.append([ph["sweep_k"], ph["flavour"], any(y[2] >= 0 for y in scheds[-1].recorded)])
                if "history_first" in ph:
                    swept.append([ph["history_first"], "history", False])
                if scheds[-1].capped:
                    break
                ph = src.send(scheds[-1])
        except StopIteration:
            pass
    else:
        for ph in plan.get("phases") or [plan]:
            scheds.append(run_phase(ph))
            if scheds[-1].capped:
                break
    log = hashlib.blake2b(digest_size=12)
    for sc in scheds:
        log.update(sc.digest().encode())
    log.update(repr([(r["oid"], r["status"], r.get("obs"), r.get("build")) for r in results]).encode())
    probe: dict = {}
    for sc in scheds:
        for k2, v2 in sc.concurrency_probe.items():
            probe[k2] = probe.get(k2, 0) + v2
    schedules = [{"first": getattr(sc, "first", None), "yields": sc.recorded, "traced": sc.traced} for sc in scheds]
    return {
        "results": results,
        "digest": log.hexdigest(),
        "steps": sum(sc.steps for sc in scheds),
        "switches": sum(sc.switches for sc in scheds),
        "schedule": schedules[0],
        "schedules": schedules,
        "fired": [f for sc in scheds for f in sc.fired],
        "traced": any(sc.traced for sc in scheds),
        "capped": any(sc.capped for sc in scheds),
        "sites": sorted({x for sc in scheds for x in sc.sites}),
        "concurrency_probe": probe,
        "history": history,
        "budget_changes": budget_changes,
        "swept": swept,
    }


# ============================================================= isolated reference


def _ref_one_call(arg):
    """Grandchild: exactly one call on the freshly built object."""
    obj, rule, text, pos = arg
    return observe_call(obj, rule, text, pos)


def ref_group_child(arg):
    """Child: build exactly one parser (and module) in a pristine process, then fork one
    grandchild per requested call, so that every observation comes from a process that
    built that one object and made that one call."""
    gc.disable()
    from pest import Parser  # noqa: PLC0415

    gtext, passes, mode, calls = arg
    try:
        p = pool.parser_class_for(gtext, Parser).from_grammar(gtext, optimizer=make_optimizer({"passes": passes}))
        obj = p
        if mode == "generated":
            obj = load_module(p.generate(), "ref")
    except Exception as e:  # noqa: BLE001
        return {"build": ["exc", type(e).__name__], "obs": {}}
    out = {}
    for i, (rule, text, pos) in enumerate(calls):
        try:
            out[str(i)] = run_in_child(_ref_one_call, (obj, rule, text, pos), timeout=30.0)
        except ChildError as e:
            out[str(i)] = ["ref-error", str(e)[:200]]
    return {"build": ["ok"], "obs": out}


class RefServer:
    """Per-worker cache of isolated references (the worker itself stays pristine)."""

    def __init__(self):
        self.cache: dict = {}
        self.builds: dict = {}
        self.requests = 0
        self.forks = 0

    def ensure(self, plan, keys):
        """keys: list of (gid, passes, mode, rule, text, pos)."""
        groups: dict = {}
        for key in keys:
            gtext = plan["grammars"][key[0]]
            ck = (gtext, optkey(key[1]), key[2], key[3], key[4], key[5])
            self.requests += 1
            if ck in self.cache:
                continue
            groups.setdefault((gtext, optkey(key[1]), key[2]), {})[ck] = (key[3], key[4], key[5])
        for (gtext, ok, mode), calls in groups.items():
            cks = list(calls)
            res = run_in_child(ref_group_child, (gtext, None if ok is None else list(ok), mode, [calls[c] for c in cks]), timeout=120.0)
            self.forks += 1 + len(cks)
            self.builds[(gtext, ok, mode)] = res["build"]
            for i, ck in enumerate(cks):
                self.cache[ck] = res["obs"].get(str(i), ["ref-error", "missing"])
        if len(self.cache) > 60_000:
            self.cache.clear()

    def get(self, plan, key):
        gtext = plan["grammars"][key[0]]
        return self.cache[(gtext, optkey(key[1]), key[2], key[3], key[4], key[5])]

    def build_status(self, plan, bkey):
        gtext = plan["grammars"][bkey[0]]
        k = (gtext, optkey(bkey[1]), bkey[2])
        if k not in self.builds:
            res = run_in_child(ref_group_child, (gtext, bkey[1], bkey[2], []), timeout=120.0)
            self.forks += 1
            self.builds[k] = res["build"]
        return self.builds[k]


def diff_clause(obs, ref):
    if obs[0] != ref[0]:
        return f"outcome-{ref[0]}-became-{obs[0]}"
    if obs[0] == "exc-on-late-read":
        return "result-object-unreadable-later"
    if obs[0] == "ok":
        return "tree-differs" if obs[1] != ref[1] else "matched-text-or-line-col-differs"
    if obs[0] == "fail":
        if obs[1] != ref[1]:
            return "failure-position-differs"
        if obs[2] != ref[2]:
            return "expected-set-differs"
        return "unexpected-set-differs"
    return "exception-type-differs"


def judge(plan, run, refs: RefServer):
    """Compare every completed parse with its isolated reference. Returns violations."""
    results = run["results"]
    keys = [tuple(r["key"][:1]) + (r["key"][1], r["key"][2], r["key"][3], r["key"][4], r["key"][5]) for r in results if r["status"] == "done" and "key" in r]
    refs.ensure(plan, keys)
    viols = []
    checked = 0
    aborted_before = False
    for r in results:
        if r["status"] in ("aborted", "aborted-exhaust"):
            aborted_before = True
        if r["status"] != "done":
            continue
        if "build" in r:
            ref_b = refs.build_status(plan, r["bkey"])
            if ref_b[0] != r["build"][0] or ref_b != r["build"]:
                viols.append({"clause": f"{r['op']}-outcome-differs", "mode": r["bkey"][2], "oid": r["oid"], "got": r["build"], "reference": ref_b, "key": r["bkey"]})
            continue
        if "key" not in r:
            continue
        if r.get("obs") is None:
            continue
        ref = refs.get(plan, r["key"])
        if ref and ref[0] == "ref-error":
            continue
        checked += 1
        if r["obs"] != ref:
            viols.append({"clause": ("late-read-" if r.get("deferred") else "") + diff_clause(r["obs"], ref), "mode": r["key"][2], "oid": r["oid"], "got": r["obs"], "reference": ref, "key": r["key"], "after_fault": aborted_before})
    for bc in run.get("budget_changes", ())[:1]:
        viols.append({"clause": "recursion-budget-changed-by-a-call", "mode": bc["mode"], "oid": bc["oid"], "got": {"sys.getrecursionlimit() before": bc["before"], "after": bc["after"], "operation": bc["op"]}, "reference": "unchanged", "key": None})
    if run.get("capped"):
        viols.append({"clause": "run-exceeded-step-budget", "mode": "any", "oid": next((r["oid"] for r in results if r["status"] == "capped"), None), "got": run["steps"], "reference": None, "key": None})
    return viols, checked


# ========================================================================= the check


def explicit_plan(plan, run):
    """The replayable form: the schedule the run actually took replaces the policy."""
    if plan.get("kind") == "sweep":
        return dict(plan)
    if plan.get("phases"):
        p = dict(plan)
        phs = []
        for i, ph in enumerate(plan["phases"]):
            q = {k: v for k, v in ph.items() if k != "policy"}
            if i < len(run["schedules"]):
                q["schedule"] = run["schedules"][i]
            q["found_policy"] = ph.get("policy", ph.get("found_policy"))
            phs.append(q)
        p["phases"] = phs
        return p
    p = {k: v for k, v in plan.items() if k not in ("policy",)}
    p["schedule"] = run["schedule"]
    p["found_policy"] = plan.get("policy")
    return p


def race_stats(plan, run, viols, checked):
    statuses = {}
    for r in run["results"]:
        statuses[r["status"]] = statuses.get(r["status"], 0) + 1
    st = {
        "runs": 1,
        "race_runs": 1,
        "race_rounds": len(plan["phases"]),
        "race_rounds_with_a_mid_operation_switch": sum(1 for sc in run["schedules"] if any(y[2] >= 0 for y in sc["yields"])),
        "runs_by_policy": {"race": 1},
        "runs_fault_free": 1,
        "violating_runs_fault_free": 1 if viols else 0,
        "steps": run["steps"],
        "switches": run["switches"],
        "op_status": statuses,
        "parses_checked": checked,
        "set_sites": [f"{a}:{b}" for a, b in run["sites"]],
        "probes": dict(run["concurrency_probe"]),
    }
    return st, bool(checked and run["switches"])


def sweep_stats(plan, run, viols, checked):
    statuses = {}
    for r in run["results"]:
        statuses[r["status"]] = statuses.get(r["status"], 0) + 1
    sw = run.get("swept", [])
    st = {
        "runs": 1,
        "sweep_runs": 1,
        "sweep_rounds": len(sw),
        "sweep_rounds_cold": sum(1 for x in sw if x[1] == "cold"),
        "sweep_history_first_calls": sum(1 for x in sw if x[1] == "history"),
        "sweep_rounds_with_a_fault": sum(1 for x in sw if x[1] in ("abort", "exhaust")),
        "faults_fired": {kk: sum(1 for f in run["fired"] if f["kind"] == kk) for kk in {f["kind"] for f in run["fired"]}},
        "sweep_rounds_with_the_planned_switch": sum(1 for x in sw if x[2]),
        "runs_by_policy": {"sweep": 1},
        "runs_fault_free": 1,
        "violating_runs_fault_free": 1 if viols else 0,
        "steps": run["steps"],
        "switches": run["switches"],
        "op_status": statuses,
        "parses_checked": checked,
        "set_sites": [f"{a}:{b}" for a, b in run["sites"]],
        "probes": dict(run["concurrency_probe"]),
    }
    return st, bool(checked and (run["switches"] or plan.get("flavour") == "history"))


def plan_stats(plan, run, viols, checked):
    if plan.get("kind") == "sweep":
        return sweep_stats(plan, run, viols, checked)
    if plan.get("phases"):
        return race_stats(plan, run, viols, checked)
    pol = plan.get("policy", {}).get("kind", "explicit")
    fired = {}
    for f in run["fired"]:
        fired[f["kind"]] = fired.get(f["kind"], 0) + 1
    n_parse = sum(1 for r in run["results"] if r["op"] == "parse" and r["status"] == "done")
    statuses = {}
    for r in run["results"]:
        statuses[r["status"]] = statuses.get(r["status"], 0) + 1
    inter = hashlib.blake2b(repr([(y[0], y[1]) for y in run["schedule"]["yields"]]).encode(), digest_size=6).hexdigest()
    # probes over the executed history
    probes = dict(run["concurrency_probe"])
    order = run["history"]
    res_by_oid = {r["oid"]: r for r in run["results"]}
    opmap = {op["oid"]: op for ops in [plan.get("setup", [])] + plan["clients"] for op in ops}
    seen_parse_on: dict = {}
    failed_or_aborted_on: set = set()
    optimized_new_since: dict = {}
    p_between = p_after_abort = p_after_rec = p_gen_after_foreign = p_rejected = 0
    made = 0
    for c, oid in order:
        op = opmap[oid]
        r = res_by_oid.get(oid, {})
        if op["op"] in ("new", "newfrom") and r.get("status") == "done":
            made += 1
            if plan["optimizers"][op["opt"]]["passes"]:
                for t in seen_parse_on:
                    optimized_new_since[t] = True
        if op["op"] == "gen" and r.get("status") == "done" and made > 1:
            p_gen_after_foreign += 1
        if op["op"] == "newbad" and r.get("rejected"):
            p_rejected += 1
        if op["op"] == "parse":
            t = op["t"]
            if r.get("status") == "done":
                if optimized_new_since.get(t):
                    p_between += 1
                    optimized_new_since[t] = False
                if t in failed_or_aborted_on:
                    p_after_abort += 1
                seen_parse_on[t] = True
                if r.get("obs", [None])[0] != "ok":
                    pass
            elif r.get("status") == "aborted":
                failed_or_aborted_on.add(t)
            elif r.get("status") == "aborted-exhaust":
                failed_or_aborted_on.add(t)
                p_after_rec += 0
    probes.update({"from_grammar_rejected_a_corrupted_grammar": p_rejected, "parse_after_optimized_parser_created_since_last_parse_of_same_object": p_between, "parse_after_aborted_call_on_same_object": p_after_abort, "generate_after_foreign_from_grammar": p_gen_after_foreign})
    gs = set(plan["grammars"])
    twin = {"P-twin1", "P-twin2"} <= gs or {"P-leak", "P-leak2"} <= gs or {"P-builtin", "P-builtin2"} <= gs or any(g.endswith("t") and g[:-1] in gs for g in gs)
    probes["same_rule_names_in_two_grammars_in_one_run"] = 1 if twin else 0
    del gs
    nontrivial = checked > 0 and (p_between or p_after_abort or run["switches"] > 0 or len({op.get("t") for op in opmap.values() if op["op"] == "parse"}) > 1)
    st = {
        "runs": 1,
        "runs_by_policy": {pol: 1},
        "runs_fault_free": 0 if run["fired"] else 1,
        "runs_with_faults": 1 if run["fired"] else 0,
        "violating_runs_fault_free": 1 if (viols and not run["fired"]) else 0,
        "violating_runs_with_faults": 1 if (viols and run["fired"]) else 0,
        "steps": run["steps"],
        "switches": run["switches"],
        "faults_fired": fired,
        "op_status": statuses,
        "parses_checked": checked,
        "parses_completed": n_parse,
        "set_interleavings": [inter] if run["switches"] else [],
        "set_sites": [f"{a}:{b}" for a, b in run["sites"]],
        "probes": probes,
        "threads": {str(len(plan["clients"])): 1},
    }
    return st, bool(nontrivial)


def make_violation(plan, run, v):
    p = explicit_plan(plan, run)
    return {
        "signature": f"C15/{v['mode']}/{v['clause']}",
        "step": None,
        "op": v.get("oid"),
        "detail": {"oid": v.get("oid"), "key": v.get("key"), "got": v.get("got"), "reference": v.get("reference"), "fired_faults": run["fired"], "after_fault": v.get("after_fault")},
        "plan": p,
        "hashseed": plan.get("hashseed", 0),
    }


class Check:
    id = "C15"
    determinism_jobs = 64

    def make_ctx(self, tier):
        return {"tier": tier, "refs": RefServer(), "refdig": {}}

    def tier_params(self, tier):
        if tier == "quick":
            return {"n_jobs": 16 * 72, "budget_s": 600.0}
        return {"n_jobs": -1, "budget_s": float(common.env_int("VERIF_BUDGET_S", 900))}

    def make_job(self, seed, k, tier):
        if k % 48 == 47:
            return gen_hashseed_job(common.derive_seed("C15-hs", seed, k), k)
        if k % 3 == 2:
            plan = gen_race_plan(common.derive_seed("C15-race", seed, k), k)
            plan["hashseed"] = k % 4
            return plan
        if k % 6 == 1:
            plan = gen_sweep_plan(common.derive_seed("C15-sweep", seed, k), k, tier)
            plan["hashseed"] = k % 4
            return plan
        plan = gen_plan(common.derive_seed("C15", seed, k), k, tier)
        plan["hashseed"] = k % 4
        return plan

    def run_hashseed_job(self, job, ctx):
        """Oracle clause 4: the isolated observation for a call key must be the same in
        fresh interpreters running under PYTHONHASHSEED 0, 1, 2 and 3."""
        zs = ctx.setdefault("hs_zygotes", {})
        res = {}
        for hs in ("0", "1", "2", "3"):
            z = zs.get(hs)
            if z is None or z.p.poll() is not None:
                z = zs[hs] = Zygote(hs)
            res[hs] = z.run({"kind": "refgroup", "hashseed": hs, "gtext": job["gtext"], "passes": job["passes"], "mode": job["mode"], "calls": job["calls"]}, 120.0)
        bad = []
        for i in range(len(job["calls"])):
            obs = {hs: res[hs]["obs"].get(str(i)) for hs in res}
            if any(o and o[0] == "ref-error" for o in obs.values()):
                continue
            if len({repr(o) for o in obs.values()}) > 1:
                bad.append((i, obs))
        builds = {hs: res[hs]["build"] for hs in res}
        if len({repr(b) for b in builds.values()}) > 1:
            bad.append((-1, builds))
        return bad

    def hashseed_violation(self, job, bad):
        i, obs = bad[0]
        return {
            "signature": f"C15/{job['mode']}/result-depends-on-hash-seed",
            "step": None,
            "op": None,
            "detail": {"call": job["calls"][i] if i >= 0 else "build", "observations_by_hashseed": obs},
            "plan": {**job, "calls": [job["calls"][i]] if i >= 0 else job["calls"]},
            "hashseed": 0,
        }

    @staticmethod
    def execute(plan, ctx):
        """Run a plan in a pristine child forked from this process's ZYGOTE (a fresh
        interpreter with fixed argv/environment that only forks), so that the heap a plan
        runs on is the same in search, replay and minimisation.
        An untraced run has no step counter: if it does not finish, the same plan is re-run
        traced under the step cap, which turns a real spin into a classified violation and
        anything else into a harness error."""
        hs = str(plan.get("hashseed", 0))
        zy = ctx.get("zygote")
        if zy is None or zy.hashseed != hs or zy.p.poll() is not None:
            if zy is not None:
                zy.close()
            zy = ctx["zygote"] = Zygote(hs)

        def runner(p, t):
            z = ctx["zygote"]
            if z.p.poll() is not None:
                z = ctx["zygote"] = Zygote(hs)
            return z.run(p, t)

        try:
            return runner(plan, 150.0)
        except ChildError as e:
            if "did not finish" not in str(e) and "timed out" not in str(e):
                raise
            if plan.get("force_trace"):
                raise
            run = runner({**plan, "force_trace": True}, 400.0)
            if not run.get("capped"):
                raise
            return run

    def run_job(self, plan, ctx):
        if plan.get("kind") == "hashseed":
            bad = self.run_hashseed_job(plan, ctx)
            st = {"hashseed_jobs": 1, "hashseed_calls_cross_checked": len(plan["calls"]), "hashseed_conflicts": len(bad)}
            return {"stats": st, "violations": [self.hashseed_violation(plan, bad)] if bad else [], "digest": hashlib.blake2b(repr(plan["calls"]).encode(), digest_size=12).hexdigest()}
        run = self.execute(plan, ctx)
        viols, checked = judge(plan, run, ctx["refs"])
        st, nontrivial = plan_stats(plan, run, viols, checked)
        if nontrivial:
            st["set_nontrivial"] = [run["digest"]]
        if nontrivial and not plan.get("phases") and plan.get("kind") != "sweep" and len(plan["clients"]) <= 2 and sum(len(c) for c in plan["clients"]) <= 10:
            st["sample_runs"] = [self.describe(explicit_plan(plan, run))[:1500]]
        out_v = []
        seen = set()
        for v in viols:
            mv = make_violation(plan, run, v)
            if mv["signature"] not in seen:
                seen.add(mv["signature"])
                out_v.append(mv)
        return {"stats": st, "violations": out_v, "digest": run["digest"]}

    def finish_worker(self, ctx):
        refs: RefServer = ctx["refs"]
        if ctx.get("zygote") is not None:
            ctx["zygote"].close()
        for z in ctx.get("hs_zygotes", {}).values():
            z.close()
        # clause 4 (hash-seed independence): reference observations for the fixed pool are
        # cross-checked between workers running under different PYTHONHASHSEEDs
        pairs = []
        keys = {}
        for ck, obs in refs.cache.items():
            kh = hashlib.blake2b(repr(ck).encode(), digest_size=8).hexdigest()
            oh = hashlib.blake2b(repr(obs).encode(), digest_size=8).hexdigest()
            pairs.append(f"{kh}:{oh}")
            keys[kh] = [ck[0], None if ck[1] is None else list(ck[1]), ck[2], ck[3], ck[4], ck[5]]
        return {"reference_requests": refs.requests, "reference_processes_forked": refs.forks, "set_refdigests": pairs, "refkeys": keys}

    def driver_violations(self, acc):
        """Reference observations of one call key that differ between workers running under
        different PYTHONHASHSEEDs become hash-seed jobs (replayable under all four seeds)."""
        by_key: dict = {}
        for p in acc.get("set_refdigests", ()):
            kh, oh = p.split(":")
            by_key.setdefault(kh, set()).add(oh)
        out = []
        for kh, ohs in sorted(by_key.items()):
            if len(ohs) > 1 and kh in acc.get("refkeys", {}):
                gtext, passes, mode, rule, text, pos = acc["refkeys"][kh]
                job = {"property": "C15", "kind": "hashseed", "job": -1, "hashseed": 0, "gname": "(from reference cross-check)", "gtext": gtext, "passes": passes, "mode": mode, "calls": [[rule, text, pos]]}
                out.append({"signature": f"C15/{mode}/result-depends-on-hash-seed", "step": None, "op": None, "detail": {"call": [rule, text, pos], "distinct_observations_between_workers": len(ohs)}, "plan": job, "hashseed": 0})
                if len(out) >= 5:
                    break
        return out

    # replay / minimisation ---------------------------------------------------------
    def check_plan(self, plan, ctx=None):
        ctx = ctx or self.make_ctx("quick")
        if plan.get("kind") == "hashseed":
            bad = self.run_hashseed_job(plan, ctx)
            return self.hashseed_violation(plan, bad) if bad else None
        run = self.execute(plan, ctx)
        viols, _ = judge(plan, run, ctx["refs"])
        if not viols:
            return None
        want = plan.get("violation", {}).get("signature")
        vs = [make_violation(plan, run, v) for v in viols]
        for mv in vs:
            if mv["signature"] == want:
                return self._keep_schedule(mv, plan)
        return self._keep_schedule(vs[0], plan)

    @staticmethod
    def _keep_schedule(mv, plan):
        # a replayed explicit plan keeps its own (possibly minimised) schedule
        if plan.get("schedule") is not None:
            mv["plan"]["schedule"] = plan["schedule"]
        if plan.get("phases") and all("schedule" in ph for ph in plan["phases"]):
            mv["plan"]["phases"] = plan["phases"]
        for k in ("violation", "found", "minimisation"):
            if k in plan:
                mv["plan"][k] = plan[k]
        return mv

    def plan_size(self, plan):
        if plan.get("kind") == "hashseed":
            return len(plan["calls"])
        if plan.get("kind") == "sweep":
            if plan["flavour"] == "marathon":
                return 40 + 50 * len(plan["marathon"])
            if plan["flavour"] == "twin" and plan.get("settings"):
                return 40 + 30 * len(plan["settings"]) + (20 * len(plan["only"]) if plan.get("only") is not None else 20 * len(plan["calls"]) * len(plan["settings"]))
            if plan["flavour"] == "twin":
                return 40 + 20 * len(plan["calls_a"]) + (20 * len(plan["only"]) if plan.get("only") is not None else 20 * len(plan["calls"]))
            if plan["flavour"] == "history":
                return 40 + (20 * len(plan["only"]) if plan.get("only") is not None else 20 * len(plan["calls"]) ** 2)
            return 40 + (20 * len(plan["only"]) if plan.get("only") is not None else 20 * plan.get("max_rounds", 300) * len(plan["pairs"])) + sum(len(a[1]) + len(b[1]) for a, b in plan["pairs"])
        if plan.get("phases"):
            return sum(20 + 10 * sum(len(c) for c in ph["clients"]) + 5 * len(ph.get("setup", ())) + len((ph.get("schedule") or {}).get("yields", ())) for ph in plan["phases"])
        return sum(len(c) for c in plan["clients"]) * 10 + len(plan.get("setup", ())) * 10 + len((plan.get("schedule") or {}).get("yields", ())) + 5 * len(plan.get("faults", ())) + sum(len(op.get("text", "")) for c in plan["clients"] for op in c) // 10

    def shrink_candidates(self, plan):
        if plan.get("kind") == "hashseed":
            for i in range(len(plan["calls"])):
                if len(plan["calls"]) > 1:
                    yield {**plan, "calls": plan["calls"][:i] + plan["calls"][i + 1 :]}
            if plan["passes"] and len(plan["passes"]) > 1:
                for i in range(len(plan["passes"])):
                    yield {**plan, "passes": plan["passes"][:i] + plan["passes"][i + 1 :]}
            return
        if plan.get("kind") == "sweep":
            # the one round in which the violation was seen (w<pair>_<step>.c?.0), then simpler arguments
            oid = str((plan.get("violation") or {}).get("detail", {}).get("oid") or "")
            if plan["flavour"] == "marathon":
                es = plan["marathon"]
                n = len(es)
                chunk = n // 2
                while chunk >= 1:
                    for s0 in range(0, n, chunk):
                        cand = es[:s0] + es[s0 + chunk :]
                        if cand:
                            yield {**plan, "marathon": cand}
                    chunk //= 2
                return
            ms = re.match(r"tw\.s(\d+)\.b(\d+)\.", oid)
            if plan.get("only") is None and ms:
                yield {**plan, "only": [[int(ms.group(1)), int(ms.group(2))]]}
            if plan.get("settings") and len(plan["settings"]) > 1:
                # drop a setting that comes BEFORE or after the violating one (indices in `only` shift)
                keep_i = plan["only"][0][0] if plan.get("only") else None
                for i in range(len(plan["settings"])):
                    if i == keep_i:
                        continue
                    st2 = plan["settings"][:i] + plan["settings"][i + 1 :]
                    on2 = None if plan.get("only") is None else [[ii - (1 if ii > i else 0), jj] for ii, jj in plan["only"]]
                    yield {**plan, "settings": st2, "only": on2} if on2 is not None else {**plan, "settings": st2}
            mt = re.match(r"tw\.b(\d+)\.", oid)
            if plan.get("only") is None and mt:
                yield {**plan, "only": [[0, int(mt.group(1))]]}
            if plan["flavour"] == "twin" and plan.get("calls_a"):
                yield {**plan, "calls_a": plan["calls_a"][:-1]}
            mh = re.match(r"h(\d+)\.then(\d+)$", oid)
            if plan.get("only") is None and mh:
                yield {**plan, "only": [[int(mh.group(1)), int(mh.group(2))]]}
            m = re.match(r"w(\d+)_(\d+)\.", oid)
            if plan.get("only") is None and m:
                yield {**plan, "only": [[int(m.group(1)), int(m.group(2))]]}
            if plan.get("only") and len(plan["only"]) > 1:
                for i in range(len(plan["only"])):
                    yield {**plan, "only": plan["only"][:i] + plan["only"][i + 1 :]}
            for j, (c1, c2) in enumerate(plan["pairs"]):
                if c2 != c1 and (plan.get("only") is None or any(jj == j for jj, _ in plan["only"])):
                    yield {**plan, "pairs": plan["pairs"][:j] + [[c1, c1]] + plan["pairs"][j + 1 :]}
            if plan["mode"] == "generated":
                yield {**plan, "mode": "interpreter"}
            spec = plan["optimizers"].get(plan["opt"], {})
            ps = spec.get("passes")
            if ps and len(ps) > 1 and not spec.get("shared_default"):
                for i in range(len(ps)):
                    yield {**plan, "optimizers": {**plan["optimizers"], plan["opt"]: {**spec, "passes": ps[:i] + ps[i + 1 :]}}}
            return
        if plan.get("phases"):
            phs = plan["phases"]
            n = len(phs)
            chunk = n // 2
            while chunk >= 1:
                for s0 in range(0, n, chunk):
                    cand = phs[:s0] + phs[s0 + chunk :]
                    if cand:
                        yield {**plan, "phases": cand}
                chunk //= 2
            for i, ph in enumerate(phs):
                def with_phase(q, i=i):
                    return {**plan, "phases": phs[:i] + [q] + phs[i + 1 :]}
                for c in range(len(ph["clients"])):
                    ops = ph["clients"][c]
                    if ops:
                        yield with_phase({**ph, "clients": ph["clients"][:c] + [[]] + ph["clients"][c + 1 :]})
                    for j in range(len(ops)):
                        if len(ops) > 1:
                            yield with_phase({**ph, "clients": ph["clients"][:c] + [ops[:j] + ops[j + 1 :]] + ph["clients"][c + 1 :]})
                st = ph.get("setup", [])
                for j in range(len(st) - 1, 0, -1):
                    yield with_phase({**ph, "setup": st[:j] + st[j + 1 :]})
                sc = ph.get("schedule")
                if sc and sc["yields"]:
                    ys = sc["yields"]
                    yield with_phase({**ph, "schedule": {**sc, "yields": []}})
                    for j in range(len(ys)):
                        yield with_phase({**ph, "schedule": {**sc, "yields": ys[:j] + ys[j + 1 :]}})
            used = {op.get("g") for ph in phs for op in ph.get("setup", ()) if op["op"] == "new"}
            if len(used) < len(plan["grammars"]):
                yield {**plan, "grammars": {g: t for g, t in plan["grammars"].items() if g in used}}
            return
        clients = plan["clients"]
        setup = plan.get("setup", [])
        sch = plan.get("schedule") or {"first": None, "yields": []}
        # 1. whole clients
        for c in range(len(clients)):
            if clients[c]:
                yield {**plan, "clients": clients[:c] + [[]] + clients[c + 1 :]}
        # 2. faults
        fl = plan.get("faults", [])
        for i in range(len(fl)):
            yield {**plan, "faults": fl[:i] + fl[i + 1 :]}
        # 3. operations (chunks, then singles), clients then setup
        for c in range(len(clients)):
            ops = clients[c]
            n = len(ops)
            chunk = n // 2
            while chunk >= 1:
                for s in range(0, n, chunk):
                    yield {**plan, "clients": clients[:c] + [ops[:s] + ops[s + chunk :]] + clients[c + 1 :]}
                chunk //= 2
        n = len(setup)
        chunk = max(1, n // 2)
        while n and chunk >= 1:
            for s in range(0, n, chunk):
                yield {**plan, "setup": setup[:s] + setup[s + chunk :]}
            if chunk == 1:
                break
            chunk //= 2
        # 4. yield points
        ys = sch["yields"]
        n = len(ys)
        if n:
            yield {**plan, "schedule": {**sch, "yields": []}}
        chunk = n // 2
        while chunk >= 1:
            for s in range(0, n, chunk):
                yield {**plan, "schedule": {**sch, "yields": ys[:s] + ys[s + chunk :]}}
            chunk //= 2
        # 5. simpler arguments
        for c in range(len(clients)):
            for i, op in enumerate(clients[c]):
                if op["op"] == "parse" and op.get("pos"):
                    yield {**plan, "clients": clients[:c] + [clients[c][:i] + [{**op, "pos": 0}] + clients[c][i + 1 :]] + clients[c + 1 :]}
                if op["op"] == "parse" and op.get("defer"):
                    yield {**plan, "clients": clients[:c] + [clients[c][:i] + [{k2: v2 for k2, v2 in op.items() if k2 != "defer"}] + clients[c][i + 1 :]] + clients[c + 1 :]}
                if op["op"] == "new" and op.get("debug"):
                    yield {**plan, "clients": clients[:c] + [clients[c][:i] + [{**op, "debug": False}] + clients[c][i + 1 :]] + clients[c + 1 :]}
        for oid, spec in plan["optimizers"].items():
            ps = spec.get("passes")
            if ps and len(ps) > 1 and not spec.get("shared_default"):
                for i in range(len(ps)):
                    yield {**plan, "optimizers": {**plan["optimizers"], oid: {**spec, "passes": ps[:i] + ps[i + 1 :]}}}
        # 6. unused grammars
        used = {op.get("g") for ops in [setup] + clients for op in ops if op["op"] == "new"}
        if len(used) < len(plan["grammars"]) and used:
            yield {**plan, "grammars": {g: t for g, t in plan["grammars"].items() if g in used}}

    def describe(self, plan):
        if plan.get("kind") == "hashseed":
            return f"hash-seed cross-check: grammar {plan.get('gname')} passes={plan['passes']} mode={plan['mode']} calls={plan['calls'][:4]}"

        if plan.get("kind") == "sweep":
            spec = plan["optimizers"][plan["opt"]]
            o = "optimizer=None" if spec["passes"] is None else ("DEFAULT_OPTIMIZER" if spec.get("shared_default") else f"Optimizer({spec['passes']})")
            if plan["flavour"] == "marathon":
                def oname2(oid):
                    sp = plan["optimizers"][oid]
                    return "None" if sp["passes"] is None else ("DEFAULT_OPTIMIZER" if sp.get("shared_default") else f"Optimizer({sp['passes']})")
                es = plan["marathon"]
                return f"marathon: {len(es)} steps (parsers built and generated one after the other in one process, grammar floods in between), calls on every parser and module at the end: " + "; ".join((f"{en['g']} ({oname2(en['opt'])})" if "g" in en else f"flood of {en['gflood']['n']} synthetic grammars x {en['gflood']['m']} rules") for en in es[:8]) + (" ..." if len(es) > 8 else "")
            if plan["flavour"] == "twin" and plan.get("settings"):
                def oname(oid):
                    sp = plan["optimizers"][oid]
                    return "None" if sp["passes"] is None else ("DEFAULT_OPTIMIZER" if sp.get("shared_default") else f"Optimizer({sp['passes']})")
                cs = plan["calls"]
                tail = "every pool call on every parser and module" if plan.get("only") is None else "; ".join(f"parse({cs[j][0]!r}, {cs[j][1][:40]!r}) on parser and module #{i}" for i, j in plan["only"][:3])
                return f"settings sweep over {plan['g']}: new + generate+exec under " + ", ".join(f"#{i} {oname(x)}" for i, x in enumerate(plan["settings"])) + f"; then {tail}"
            if plan["flavour"] == "twin":
                spec2 = plan["optimizers"][plan["opt2"]]
                o2 = "optimizer=None" if spec2["passes"] is None else ("DEFAULT_OPTIMIZER" if spec2.get("shared_default") else f"Optimizer({spec2['passes']})")
                cs = plan["calls"] if plan.get("only") is None else [plan["calls"][j] for _, j in plan["only"]]
                return (f"twin sweep: pA=new({plan['g']}, {o}); mA=generate+exec(pA); {len(plan['calls_a'][:3])} call(s) of it; pB=new({plan['g2']}, {o2}); mB=generate+exec(pB); then on pB and mB: "
                        + "; ".join(f"parse({c[0]!r}, {c[1][:40]!r})" for c in cs[:4]) + (" ..." if len(cs) > 4 else "") + f"; then {len(plan['calls_a'])} call(s) of pA / mA again")
            if plan["flavour"] == "history":
                cs = plan["calls"]
                if plan.get("only") is not None:
                    return f"history sweep over {plan['g']} ({o}, {plan['mode']}): " + "; ".join(f"fresh object, parse({cs[i][0]!r}, {cs[i][1][:40]!r}) first, then parse({cs[j][0]!r}, {cs[j][1][:40]!r})" for i, j in plan["only"][:4])
                return f"history sweep over {plan['g']} ({o}, {plan['mode']}): for each of {len(cs)} pool calls a fresh object, that call first, then all {len(cs)} calls"
            if plan["flavour"] in ("abort", "exhaust"):
                what = "aborted at" if plan["flavour"] == "abort" else "run with only this many frames left:"
                pairs = [(j, pr) for j, pr in enumerate(plan["pairs"]) if plan.get("only") is None or any(jj == j for jj, _ in plan["only"])]
                return f"{plan['flavour']} sweep over {plan['g']} ({o}, {plan['mode']}), one warm object, one client: " + "; ".join(
                    f"parse({c1[0]!r}, {c1[1][:40]!r}) {what} {('step(s) ' + str([k for jj, k in plan['only'] if jj == j])) if plan.get('only') is not None else 'every step / head-room'}, then parse({c2[0]!r}, {c2[1][:40]!r}) and the first call again" for j, (c1, c2) in pairs[:3])
            which = "every step only a cold call executes" if plan["flavour"] == "cold" else "every step"
            pairs = list(enumerate(plan["pairs"]))
            if plan.get("only") is not None:
                pairs = [(j, pr) for j, pr in pairs if any(jj == j for jj, _ in plan["only"])]
            txt = "; ".join(
                f"client0 parse({c1[0]!r}, {c1[1][:40]!r}) pre-empted at {('step(s) ' + str([k for jj, k in plan['only'] if jj == j])) if plan.get('only') is not None else which} by client1 parse({c2[0]!r}, {c2[1][:40]!r}) running to completion"
                for j, (c1, c2) in pairs[:4]
            )
            return f"{plan['flavour']} sweep over {plan['g']} ({o}, {plan['mode']}), {'a fresh object per round' if plan['flavour'] == 'cold' else 'one warm object'}: {txt}" + (" ..." if len(pairs) > 4 else "")

        def fmt(op):
            k = op["op"]
            if k == "new":
                spec = plan["optimizers"][op["opt"]]
                o = "optimizer=None" if spec["passes"] is None else ("DEFAULT_OPTIMIZER" if spec.get("shared_default") else f"Optimizer({spec['passes']})")
                return f"{op['id']}=new({op['g']}, {o}{', debug' if op.get('debug') else ''})"
            if k == "newfrom":
                spec = plan["optimizers"][op["opt"]]
                o = "optimizer=None" if spec["passes"] is None else ("DEFAULT_OPTIMIZER" if spec.get("shared_default") else f"Optimizer({spec['passes']})")
                return f"{op['id']}=Parser({op['src']}.rules, {o})"
            if k == "gen":
                return f"{op['id']}=generate+exec({op['p']})"
            if k == "parse":
                return f"{op['t']}.parse({op['rule']!r}, {op['text'][:40]!r}{'...' if len(op['text']) > 40 else ''}{', start_pos=%d' % op['pos'] if op.get('pos') else ''}){' [result read at the end of the phase]' if op.get('defer') else ''}"
            if k in ("drop", "reads"):
                return f"{k}({op['t']})"
            if k == "gflood":
                return f"grammar-flood({op['n']} synthetic grammars x {op['m']} rules: from_grammar + generate, dropped)"
            if k == "newbad":
                return f"from_grammar(<corrupted grammar, {len(op['gtext'])} chars>) [expected to raise]"
            if k == "flood":
                return f"flood({op['t']}.parse({op['rule']!r}, {op['text']!r}+i) for i<{op['n']})"
            return k

        if plan.get("phases"):
            out = []
            for ph in plan["phases"][:6]:
                q = {**plan, "phases": None, "setup": ph.get("setup", []), "clients": ph["clients"], "faults": ph.get("faults", []), "schedule": ph.get("schedule"), "policy": ph.get("policy")}
                out.append("{ " + self.describe(q) + " }")
            return f"race plan, {len(plan['phases'])} round(s): " + " ; ".join(out) + (" ..." if len(plan["phases"]) > 6 else "")
        parts = []
        if plan.get("setup"):
            parts.append("setup: " + "; ".join(f"[{op['oid']}] " + fmt(op) for op in plan["setup"]))
        for c, ops in enumerate(plan["clients"]):
            if ops:
                parts.append(f"client{c}: " + "; ".join(f"[{op['oid']}] " + fmt(op) for op in ops))
        if plan.get("faults"):
            parts.append("faults: " + "; ".join(f"{f['kind']}@{f['oid']}+{f.get('offset', f.get('headroom'))}" for f in plan["faults"]))
        sch = plan.get("schedule")
        if sch:
            parts.append(f"schedule: first=client{sch.get('first')} yields=" + " ".join(f"c{y[0]}@{y[1]}+{y[2]}->c{y[3]}" for y in sch["yields"][:40]) + (" ..." if len(sch["yields"]) > 40 else ""))
        elif plan.get("policy"):
            parts.append(f"policy: {plan['policy']}")
        return " | ".join(parts)

    def vacuity(self, acc):
        out = []
        if acc.get("runs", 0) > 20:
            if not acc.get("parses_checked"):
                out.append("vacuous run: no parse was compared with an isolated reference")
            if not acc.get("switches"):
                out.append("vacuous run: the scheduler never switched clients")
            if acc.get("runs_by_policy", {}).keys() - {"seq", "race"} and not acc.get("steps"):
                out.append("vacuous run: traced policies ran but no scheduler step was counted (settrace seam lost)")
        return out

    def assumptions(self):
        return [
            "steps inside C extensions (regex matching, compile) are atomic to the scheduler; line/opcode pre-emption over-approximates GIL hand-off points; free-threaded CPython is outside the model",
            "the isolated reference is produced by the same code on the shortest possible history (pristine process, one parser, one call); a defect that is independent of history is invisible to this oracle by design (it belongs to C01-C04)",
            "compared: outcome class, tree (rule, start, end, tag, children) plus str() and line_col() of the first three top-level pairs, furthest-failure position, expected/unexpected label sets; not compared: message text, label multiplicity/order, furthest_stack, generated source bytes",
            "operations aborted by an injected fault have no expected result; every completed call after them is checked",
        ]

    def evidence(self, acc, tier):
        refd = acc.get("set_refdigests", set())
        by_key: dict = {}
        for p in refd:
            kh, oh = p.split(":")
            by_key.setdefault(kh, set()).add(oh)
        hs_conflicts = sum(1 for v in by_key.values() if len(v) > 1)
        steps = acc.get("steps", 0)
        return {
            "evaluations": acc.get("runs", 0) + acc.get("hashseed_jobs", 0),
            "distinct_nontrivial": len(acc.get("set_nontrivial", ())),
            "rule": (
                "one evaluation = one simulated run in a pristine forked process: a seeded plan (grammar subset of the pool, 2-5 optimizer objects, "
                "a sequential setup prefix, 1-4 clients x 3-12 operations new/newfrom/newbad/gen/parse/drop/reads/gc/purge/flood/gflood, 0-2 faults placed inside operations) executed "
                "under a seeded schedule policy (seq, rand(p), pct(d), site, fresh); every third job is a race plan (30-85 short rounds), every sixth a sweep plan whose inner "
                "loop is systematic (single pre-emptions at every cold-only / every step, aborts at every step, exhaustion at every head-room, first-call histories, twin grammars, "
                "fourteen optimizer settings of one grammar, marathons with grammar floods). A run is non-trivial when at least one parse was checked against its "
                "isolated reference AND the run contains cross-object or post-fault history before it or an intra-operation context switch; distinct = "
                "distinct event-log digest (every scheduler step, switch, fault and observation)."
            ),
            "samples": acc.get("sample_runs", [])[:4] or [{"note": "no small non-trivial sample in this run"}],
            "parses_checked_against_isolated_reference": acc.get("parses_checked", 0),
            "operation_status_counts": acc.get("op_status", {}),
            "runs_by_policy": acc.get("runs_by_policy", {}),
            "race_plans": {"runs": acc.get("race_runs", 0), "rounds": acc.get("race_rounds", 0), "rounds_with_a_mid_operation_switch": acc.get("race_rounds_with_a_mid_operation_switch", 0), "what": "30-85 short rounds per run: 6-14 with a fresh parser (+module), the rest re-using one; 2-3 clients parsing with the object at once, one or two pre-emptions per round"},
            "sweep_plans": {"runs": acc.get("sweep_runs", 0), "rounds": acc.get("sweep_rounds", 0), "cold_rounds": acc.get("sweep_rounds_cold", 0), "history_sweep_first_calls": acc.get("sweep_history_first_calls", 0), "fault_sweep_rounds": acc.get("sweep_rounds_with_a_fault", 0), "rounds_in_which_the_planned_switch_happened": acc.get("sweep_rounds_with_the_planned_switch", 0), "what": "per plan one (grammar, optimizer setting, interpreter|generated, call pair): client0's call pre-empted once, at every step that only a cold call executes (fresh object per round) or at every step (one warm object), by client1's call running to completion"},
            "runs_by_client_threads": acc.get("threads", {}),
            "simulated_time_scheduler_steps": steps,
            "context_switches": acc.get("switches", 0),
            "distinct_interleavings": {"count": len(acc.get("set_interleavings", ())), "measure": "distinct sequences of (client, operation) at context switches, among runs with >= 1 switch"},
            "distinct_preemption_sites": {"count": len(acc.get("set_sites", ())), "measure": "(function, line) of the code under test at which a mid-operation switch happened"},
            "fault_kinds_fired": acc.get("faults_fired", {}),
            "fault_free_vs_fault_injecting": {k: acc.get(k, 0) for k in ("runs_fault_free", "runs_with_faults", "violating_runs_fault_free", "violating_runs_with_faults")},
            "probes": acc.get("probes", {}),
            "isolated_reference": {"requests": acc.get("reference_requests", 0), "processes_forked": acc.get("reference_processes_forked", 0), "distinct_call_keys": len(by_key), "hash_seed_cross_check_conflicts_between_workers": hs_conflicts},
            "hash_seed_independence_jobs": {"jobs": acc.get("hashseed_jobs", 0), "calls_observed_under_4_hash_seeds": acc.get("hashseed_calls_cross_checked", 0), "conflicts": acc.get("hashseed_conflicts", 0)},
            "components": {"real": ["scanner", "grammar parser", "optimizer + passes", "interpreter", "code generator", "generated modules (compiled and exec'ed in the run)", "ParserState/Stack", "regex extension"], "controlled_by_simulator": ["thread scheduling (baton + settrace)", "GC timing (automatic GC off, seeded collect)", "recursion head-room", "regex cache purge", "PYTHONHASHSEED (k mod 4)"], "stub": []},
        }
