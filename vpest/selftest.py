"""Self-tests of the machinery itself.

  ./check selftest-sensitivity [--only C05] [--mutant NAME] [--with-tests]
      every /verif/mutants/<name>.patch (a realistic breakage that compiles and passes the
      678 tests) must make the named check exit 1 with a VIOLATION line; every
      /verif/mutants/neutral_*.patch (behaviour-preserving w.r.t. that property) must leave
      it at exit 0.  Scratch copies live under /tmp and are removed afterwards.
  ./check selftest-determinism [--only C15] [--jobs N]
      every job's event-log digest must be identical when the same PRNG value is run in a
      different worker, at another worker count and under another PYTHONHASHSEED in a
      fresh interpreter.
"""

from __future__ import annotations

import argparse
import json
import os
import re
import shutil
import subprocess
import sys
import tempfile
import time

from . import common

MUTANT_DIR = os.path.join(common.VERIF_DIR, "mutants")


def read_patch_meta(path):
    meta = {}
    with open(path) as f:
        for line in f:
            if not line.startswith("#"):
                break
            m = re.match(r"#\s*(\w+):\s*(.*)", line)
            if m:
                meta[m.group(1)] = m.group(2).strip()
    return meta


def make_scratch(patch_path):
    d = tempfile.mkdtemp(prefix="vpest-scratch-")
    shutil.copytree("/repo/src", os.path.join(d, "src"), ignore=shutil.ignore_patterns("__pycache__"))
    r = subprocess.run(["patch", "-p1", "-s", "-d", d, "-i", patch_path], capture_output=True, text=True, check=False)
    if r.returncode != 0:
        shutil.rmtree(d, ignore_errors=True)
        raise RuntimeError(f"patch failed: {patch_path}: {r.stdout} {r.stderr}")
    return d


def passes_unit_tests(patch_path) -> tuple[bool, str]:
    """Apply the patch in a scratch git worktree of /repo and run the pinned suite."""
    d = tempfile.mkdtemp(prefix="vpest-wt-")
    os.rmdir(d)
    try:
        subprocess.run(["git", "-C", "/repo", "worktree", "add", "--detach", "-q", d, "HEAD"], check=True, capture_output=True)
        subprocess.run(["patch", "-p1", "-s", "-d", d, "-i", patch_path], check=True, capture_output=True)
        env = dict(os.environ)
        env["PYTHONPATH"] = os.path.join(d, "src")
        env["PYTHONDONTWRITEBYTECODE"] = "1"
        r = subprocess.run([common.PYTHON, "-m", "pytest", "-q", "-p", "no:cacheprovider", "--timeout=900", "--continue-on-collection-errors"], cwd=d, env=env, capture_output=True, text=True, timeout=900, check=False)
        tail = r.stdout.strip().splitlines()[-1] if r.stdout.strip() else ""
        ok = "678 passed" in tail and "failed" not in tail
        return ok, tail
    finally:
        subprocess.run(["git", "-C", "/repo", "worktree", "remove", "--force", d], capture_output=True, check=False)
        shutil.rmtree(d, ignore_errors=True)


def sensitivity(argv):
    ap = argparse.ArgumentParser()
    ap.add_argument("--only")
    ap.add_argument("--mutant")
    ap.add_argument("--with-tests", action="store_true")
    ap.add_argument("--seeded", action="store_true", help="also run the sub-agent changes under /verif/seeded")
    ap.add_argument("--seeded-only", action="store_true")
    ap.add_argument("--neutral-filter", default=None, help="run only the neutral patches whose name contains this (\"none\" skips them all)")
    ap.add_argument("--seeded-filter", default=None, help="run only the seeded changes whose id matches this regular expression")
    ap.add_argument("--no-mutants", action="store_true")
    ap.add_argument("--tier", default="quick")
    ap.add_argument("--jobs", type=int, default=None)
    a = ap.parse_args(argv)
    results = []
    failed = 0
    items = []
    if not a.seeded_only:
        for fn in sorted(os.listdir(MUTANT_DIR)):
            if fn.endswith(".patch"):
                items.append((fn[:-6], os.path.join(MUTANT_DIR, fn), read_patch_meta(os.path.join(MUTANT_DIR, fn))))
    if a.seeded or a.seeded_only:
        sd = os.path.join(common.VERIF_DIR, "seeded")
        for sid in sorted(os.listdir(sd)):
            mp = os.path.join(sd, sid, "meta.json")
            if os.path.exists(mp):
                mj = json.load(open(mp))
                items.append(("seeded/" + sid, os.path.join(sd, sid, "patch.diff"), {"property": mj["breaks_property"], "expect_green": mj.get("expected_by_selftest") == "not-detected"}))
    for name, path, meta in items:
        if a.mutant and a.mutant not in name:
            continue
        neutral = os.path.basename(name).startswith("neutral_")
        if neutral and a.neutral_filter is not None and a.neutral_filter not in name:
            continue
        if name.startswith("seeded/") and a.seeded_filter and not re.search(a.seeded_filter, name):
            continue
        if a.no_mutants and not neutral and not name.startswith("seeded/"):
            continue
        # a neutral patch must leave EVERY check green; a mutant is run against its own property
        props = ["C09", "C05", "C15"] if neutral else [meta.get("property")]
        for prop in props:
            if a.only and prop != a.only:
                continue
            # (a seeded change recorded as outside what its check asserts is expected to stay green)
            failed += run_one(a, name, path, prop, neutral or bool(meta.get("expect_green")), results)
    os.makedirs(common.OUT_DIR, exist_ok=True)
    with open(os.path.join(common.OUT_DIR, "selftest-sensitivity.json"), "w") as f:
        json.dump(results, f, indent=1)
    print(f"sensitivity: {len(results) - failed}/{len(results)} as expected")
    return 0 if failed == 0 else 1


def run_one(a, name, path, prop, neutral, results):
    failed = 0
    if True:
        tests = None
        if a.with_tests:
            tests = passes_unit_tests(path)
        try:
            d = make_scratch(path)
        except RuntimeError as e:
            # a patch that no longer applies to the current tree is a failed item, not a crash
            results.append({"mutant": name, "property": prop, "neutral": neutral, "exit": None, "signatures": [], "ok": False, "error": str(e)[:300]})
            print(f"FAIL {prop} {name:55s} PATCH DOES NOT APPLY: {str(e)[:160]}", flush=True)
            return 1
        t0 = time.time()
        try:
            env = dict(os.environ)
            env["VERIF_PEST_SRC"] = os.path.join(d, "src")
            env["VERIF_EVIDENCE_DIR"] = os.path.join(d, "evidence")
            env["VERIF_REPLAY_DIR"] = os.path.join(d, "replays")
            # the self-test asks "is it detected", not for every minimised trace
            env.setdefault("VERIF_MAX_SIGNATURES", "1")
            env.setdefault("VERIF_MINIMISE_WALL_S", "45")
            cmd = [common.PYTHON, "-B", common.MAIN, prop, "--tier", a.tier]
            if a.jobs is not None:
                cmd += ["--jobs", str(a.jobs)]
            r = subprocess.run(cmd, env=env, capture_output=True, text=True, timeout=3600, check=False)
            sigs = re.findall(r"violation (\S+) \(", r.stdout)
            viol = "VIOLATION property=" + prop in r.stdout
            if neutral:
                ok = r.returncode == 0 and not viol
            else:
                ok = r.returncode == 1 and viol
            if not ok:
                failed += 1
            results.append({"mutant": name, "property": prop, "neutral": neutral, "exit": r.returncode, "signatures": sigs, "ok": ok, "wall_s": round(time.time() - t0, 1), "unit_tests": tests})
            status = "ok  " if ok else "FAIL"
            exp = "stays green" if neutral else "detected"
            print(f"{status} {prop} {name:55s} exit={r.returncode} {exp if ok else 'NOT ' + exp} {sigs[:3]} {'' if tests is None else ('tests:' + tests[1])} {time.time() - t0:.0f}s", flush=True)
            if not ok:
                print("     " + "\n     ".join(r.stdout.strip().splitlines()[-6:]))
        finally:
            shutil.rmtree(d, ignore_errors=True)
    return failed


def determinism(argv):
    ap = argparse.ArgumentParser()
    ap.add_argument("--only")
    ap.add_argument("--jobs", type=int, default=None)
    ap.add_argument("--seed", type=int, default=common.env_int("VERIF_SEED", 0))
    a = ap.parse_args(argv)
    from . import framework  # noqa: PLC0415

    bad = 0
    for cid in ("C09", "C05", "C15"):
        if a.only and a.only != cid:
            continue
        try:
            check = framework.get_check(cid)
        except Exception as e:  # noqa: BLE001
            print(f"{cid}: not available ({e})")
            continue
        n = a.jobs or getattr(check, "determinism_jobs", 32)
        runs = []
        # (workers, hashseed offset): same jobs land on different workers / interpreters
        for W, off in ((16, 0), (4, 0), (8, 2)):
            digs = collect_digests(cid, a.seed, W, n, off)
            runs.append(((W, off), digs))
        base = runs[0][1]
        for (W, off), digs in runs[1:]:
            diff = [k for k in base if digs.get(k) != base[k]]
            same_hs = off == 0
            label = f"{cid}: W=16/hashseed k%4 vs W={W}/hashseed (k+{off})%4"
            if len(digs) != len(base) or diff:
                bad += 1
                print(f"DIVERGED {label}: {len(diff)} of {len(base)} jobs differ, e.g. {diff[:5]}")
            else:
                print(f"identical {label}: {len(base)} job digests")
    if not a.only or a.only == "C15":
        bad += replay_equivalence(a.seed, min(a.jobs or 48, 48))
    print("determinism:", "OK" if not bad else f"{bad} comparison(s) diverged")
    return 0 if not bad else 1


def replay_equivalence(seed, n):
    """C15: executing the EXPLICIT plan (recorded yield points instead of the policy's PRNG)
    must give the same event-log digest as the run it was recorded from."""
    common.import_pest()
    from . import c15, framework  # noqa: PLC0415

    chk = c15.Check()
    same, total, diff = 0, 0, []
    for k in range(n):
        plan = chk.make_job(seed, k, "quick")
        if plan.get("kind") == "hashseed":
            continue
        run = framework.run_in_child(c15.execute_plan, plan, timeout=200)
        run2 = framework.run_in_child(c15.execute_plan, c15.explicit_plan(plan, run), timeout=200)
        total += 1
        if run["digest"] == run2["digest"]:
            same += 1
        else:
            diff.append(k)
    if diff:
        print(f"DIVERGED C15 explicit replay vs recorded run: jobs {diff[:10]}")
        return 1
    print(f"identical C15: explicit replay vs the policy-driven run it was recorded from: {same}/{total} job digests")
    return 0


def collect_digests(cid, seed, W, n_jobs, hs_offset):
    procs = []
    deadline = time.time() + 3600
    for w in range(W):
        env = dict(os.environ)
        env["PYTHONHASHSEED"] = str((w + hs_offset) % 4)
        env["PYTHONDONTWRITEBYTECODE"] = "1"
        env["VERIF_EMIT_DIGESTS"] = "1"
        p = subprocess.Popen([common.PYTHON, "-B", common.MAIN, "--worker", cid, str(seed), "quick", str(w), str(W), str(n_jobs), repr(deadline)], stdout=subprocess.PIPE, stderr=subprocess.PIPE, env=env, cwd=common.VERIF_DIR, text=True)
        procs.append(p)
    digs = {}
    for p in procs:
        out, _ = p.communicate()
        for line in out.splitlines():
            try:
                m = json.loads(line)
            except ValueError:
                continue
            if m.get("t") == "dig":
                digs[m["k"]] = m["d"]
    return digs


def main(argv):
    if argv[0] == "selftest-sensitivity":
        return sensitivity(argv[1:])
    if argv[0] == "selftest-determinism":
        return determinism(argv[1:])
    print("unknown selftest", argv[0])
    return 2
