"""C09 — snapshotting stack, counter and parser state act like full-copy snapshots.

System under simulation (all real code): pest.stack.Stack, pest.checkpoint_int.
SnapshottingInt, pest.state.ParserState (two Stacks, counter, position history).
Reference model (the only model code): plain lists/ints plus a list of FULL COPIES.

The search is seeded generation of operation histories in which "roll back to the last
savepoint" (restore) and "release it" (drop) are ordinary generated operations -- the
rollback plays the role of the dirty restart in a storage simulation.  There is no
scheduling nondeterminism here (single thread, no clock); the evidence says so.
"""

from __future__ import annotations

import random

from . import common
from .framework import run_in_child

SUBJECTS = ("stack", "int", "state")

# ------------------------------------------------------------------ executors (oracle)


def _viol(subject, clause, step, op, detail, ops):
    return {
        "signature": f"C09/{subject}/{clause}",
        "step": step,
        "op": op,
        "detail": detail,
        "plan": {"property": "C09", "subject": subject, "ops": ops},
    }


def exec_stack(ops, stats=None):
    """Run one Stack history against the full-copy model. Return violation or None."""
    from pest.stack import Stack  # noqa: PLC0415

    s = Stack()
    m: list = []
    copies: list[list] = []
    nontrivial = False
    # SPARSE histories contain explicit ["obs", mask] operations and are observed only there
    # (and in full after the last step): observation is not guaranteed to be pure -- a cached
    # view filled by iteration, a length memoised by len() -- and a stack that is looked at
    # after every step never holds a stale one
    sparse = any(op[0] == "obs" for op in ops)
    if sparse:
        ops = list(ops) + [["obs", 63]]
    # wall-clock watchdog for the huge histories only: how FAST an implementation is on a
    # 100 000-item stack is not C09's subject (a persistent linked-list Stack indexes in O(n));
    # a history that takes too long is abandoned and counted, never judged, never an error
    import time as _time  # noqa: PLC0415

    t_end = _time.monotonic() + 20.0 if len(ops) > 2000 else None
    for i, op in enumerate(ops):
        name = op[0]
        if t_end is not None and not i & 1023 and _time.monotonic() > t_end:
            if stats is not None:
                stats["abandoned_slow"] = stats.get("abandoned_slow", 0) + 1
            return None
        try:
            if name == "obs":
                mask = op[1]
                if mask & 1 and list(s) != m:
                    return _viol("stack", "iteration-differs-at-an-observation", i, op, {"got": list(s), "expected": list(m)}, ops[:-1] if i == len(ops) - 1 else ops)
                if mask & 2 and (len(s) != len(m) or s.empty() != (not m)):
                    return _viol("stack", "len-or-empty-differs-at-an-observation", i, op, {"len": len(s), "expected": list(m)}, ops)
                if mask & 4 and m and (s.peek() != m[-1] or s[-1] != m[-1] or s[0] != m[0]):
                    return _viol("stack", "peek-or-index-differs-at-an-observation", i, op, {"expected": list(m)}, ops)
                if mask & 8 and (list(s[:]) != m or list(s[1:]) != m[1:] or list(s[-2:]) != m[-2:] or list(s[::2]) != m[::2] or list(s[::-1]) != m[::-1]):
                    return _viol("stack", "slice-differs-at-an-observation", i, op, {"expected": list(m)}, ops)
                if mask & 16 and list(reversed(s)) != m[::-1]:
                    return _viol("stack", "reversed-differs-at-an-observation", i, op, {"got": list(reversed(s)), "expected": list(m)}, ops)
                if mask & 32 and ((0 in s) or any(x not in s for x in m) or any(s.index(x) != m.index(x) or s.count(x) != 1 for x in m[:8]) or [x for x in s] != m or bool(len(s)) != bool(m)):
                    return _viol("stack", "sequence-protocol-differs-at-an-observation", i, op, {"expected": list(m)}, ops)
                if stats is not None:
                    stats["steps"] += 1
                continue
            if name == "push":
                s.push(op[1])
                m.append(op[1])
            elif name == "pop":
                if not m:
                    continue
                got = s.pop()
                exp = m.pop()
                if got != exp:
                    return _viol("stack", "pop-returns-wrong-item", i, op, {"got": got, "expected": exp}, ops)
            elif name == "peek":
                if not m:
                    continue
                got = s.peek()
                if got != m[-1]:
                    return _viol("stack", "peek-returns-wrong-item", i, op, {"got": got, "expected": m[-1]}, ops)
            elif name == "clear":
                s.clear()
                m = []
            elif name == "snapshot":
                s.snapshot()
                copies.append(list(m))
            elif name == "restore":
                s.restore()
                if copies:
                    new = copies.pop()
                    # non-trivial: the rollback has to resurrect an item that was
                    # popped from below the snapshot's level
                    common_prefix = 0
                    for a, b in zip(new, m):
                        if a != b:
                            break
                        common_prefix += 1
                    if common_prefix < len(new):
                        nontrivial = True
                    m = new
                else:
                    m = []
            elif name == "drop":
                s.drop_snapshot()
                if copies:
                    copies.pop()
            else:
                raise ValueError(f"bad op {op}")
            if sparse:
                if stats is not None:
                    stats["steps"] += 1
                continue
            # ---- observations after every step
            n = len(m)
            if n > 4096 and name in ("push", "pop", "peek") and i % 4096:
                # (only what is O(1) in any representation, most of the time)
                if s.peek() != m[-1] or (not i % 64 and len(s) != n):
                    return _viol("stack", f"top-differs-after-{name}", i, op, {"expected_len": n, "expected_top": m[-1]}, ops)
                if stats is not None:
                    stats["steps"] += 1
                continue
            if n > 48 and name in ("push", "pop", "peek") and i % (8 if n < 512 else 128):
                # large stacks (the `big` histories): push/pop/peek only touch the top, so most of
                # them are observed through len, emptiness, both ends and a window below the top;
                # every eighth step and every other operation is observed in full
                if len(s) != n or s.empty() or s.peek() != m[-1] or s[-1] != m[-1] or s[0] != m[0] or list(s[-6:]) != m[-6:] or s[n // 2] != m[n // 2]:
                    return _viol("stack", f"top-window-differs-after-{name}", i, op, {"len": len(s), "expected_len": n, "expected_top": m[-6:]}, ops)
                if stats is not None:
                    stats["steps"] += 1
                continue
            got_list = list(s)
            if got_list != m:
                return _viol("stack", f"contents-differ-after-{name}", i, op, {"got": got_list, "expected": list(m)}, ops)
            if len(s) != len(m) or s.empty() != (not m):
                return _viol("stack", f"len-or-empty-differ-after-{name}", i, op, {"len": len(s), "empty": s.empty(), "expected": list(m)}, ops)
            if m:
                if s.peek() != m[-1] or s[-1] != m[-1] or s[0] != m[0]:
                    return _viol("stack", f"peek-or-index-differ-after-{name}", i, op, {"peek": s.peek(), "expected": list(m)}, ops)
            if list(s[:]) != m or list(reversed(s)) != m[::-1] or list(s[1:]) != m[1:] or list(s[-2:]) != m[-2:]:
                return _viol("stack", f"slice-or-reversed-differ-after-{name}", i, op, {"expected": list(m)}, ops)
            n = len(m)
            if n <= 5 and name in ("restore", "drop", "clear", "pop"):
                # the whole Sequence protocol on small stacks: every index, a sweep of slices,
                # membership, index(), count(), iteration
                for j in range(-n, n):
                    if s[j] != m[j]:
                        return _viol("stack", f"index-differs-after-{name}", i, op, {"index": j, "got": s[j], "expected": list(m)}, ops)
                for a_ in (-2, 0, 1):
                    for b_ in (-1, 2, None):
                        if list(s[a_:b_]) != m[a_:b_] or list(s[b_:a_:-1]) != m[b_:a_:-1]:
                            return _viol("stack", f"slice-differs-after-{name}", i, op, {"slice": [a_, b_], "expected": list(m)}, ops)
                if [x for x in s] != m or (0 in s) or any(x not in s for x in m) or any(s.index(x) != m.index(x) or s.count(x) != 1 for x in m):
                    return _viol("stack", f"sequence-protocol-differs-after-{name}", i, op, {"expected": list(m)}, ops)
                for bad in (n, -n - 1):
                    try:
                        s[bad]
                    except IndexError:
                        pass
                    else:
                        return _viol("stack", f"index-out-of-range-accepted-after-{name}", i, op, {"index": bad, "expected": list(m)}, ops)
        except Exception as e:  # noqa: BLE001 - any exception from the implementation is a finding
            return _viol("stack", f"raises-{type(e).__name__}-in-{name}", i, op, {"exception": repr(e), "model": list(m), "snapshots": len(copies)}, ops)
        if stats is not None:
            stats["steps"] += 1
    if stats is not None and nontrivial:
        stats["nontrivial_flag"] = True
    return None


def exec_int(ops, stats=None):
    from pest.checkpoint_int import SnapshottingInt  # noqa: PLC0415

    x = SnapshottingInt()
    v = 0
    saved: list[int] = []
    nontrivial = False
    sparse = any(op[0] == "obs" for op in ops)
    if sparse:
        ops = list(ops) + [["obs"]]
    for i, op in enumerate(ops):
        name = op[0]
        try:
            if name == "obs":
                pass
            elif name == "add":
                x = x + op[1]
                v += op[1]
            elif name == "sub":
                x = x - op[1]
                v -= op[1]
            elif name == "iadd":
                y = x
                x += op[1]  # the form the library itself uses (state.atomic_depth += 1)
                v += op[1]
                if x is not y:
                    return _viol("int", "inplace-add-returns-other-object", i, op, {}, ops)
            elif name == "isub":
                y = x
                x -= op[1]
                v -= op[1]
                if x is not y:
                    return _viol("int", "inplace-sub-returns-other-object", i, op, {}, ops)
            elif name == "mul":
                x = x * op[1]
                v *= op[1]
            elif name == "floordiv":
                x = x // op[1]
                v //= op[1]
            elif name == "mod":
                x = x % op[1]
                v %= op[1]
            elif name == "pow":
                x = x ** op[1]
                v **= op[1]
            elif name == "truediv":
                x = x / op[1]
                v = int(v / op[1])
            elif name == "pos":
                x = +x
            elif name == "neg":
                x = -x
                v = -v
            elif name == "abs":
                x = abs(x)
                v = abs(v)
            elif name == "zero":
                x.zero()
                v = 0
            elif name == "snapshot":
                x.snapshot()
                saved.append(v)
            elif name == "restore":
                r = x.restore()
                if saved:
                    nv = saved.pop()
                    if nv != v:
                        nontrivial = True
                    v = nv
                else:
                    v = 0
                if r is not x:
                    return _viol("int", "restore-returns-other-object", i, op, {}, ops)
            elif name == "drop":
                x.drop()
                if saved:
                    saved.pop()
            else:
                raise ValueError(f"bad op {op}")
            if sparse and name != "obs":
                if stats is not None:
                    stats["steps"] += 1
                continue
            if int(x) != v:
                return _viol("int", f"value-differs-after-{name}", i, op, {"got": int(x), "expected": v}, ops)
            if (x > 0) != (v > 0) or (x == v) is not True or (x != v) is not False or (x >= 0) != (v >= 0) or (x < 1) != (v < 1) or (x <= 0) != (v <= 0) or str(x) != str(v):
                return _viol("int", f"comparison-differs-after-{name}", i, op, {"expected": v}, ops)
        except Exception as e:  # noqa: BLE001
            return _viol("int", f"raises-{type(e).__name__}-in-{name}", i, op, {"exception": repr(e)}, ops)
        if stats is not None:
            stats["steps"] += 1
    if stats is not None and nontrivial:
        stats["nontrivial_flag"] = True
    return None


def exec_state(ops, stats=None):
    """ParserState.checkpoint/ok/restore over pos, user stack, rule stack, atomic depth.

    Brackets (checkpoint..ok|restore, atomic_checkpoint enter..exit) close LIFO, as every
    parse drives them.  Infeasible ops (only reachable in minimisation candidates) are
    skipped so that every sub-sequence of a plan is itself a plan.
    """
    from pest.state import ParserState, RuleFrame  # noqa: PLC0415

    st = ParserState("", 0)
    pos = 0
    user: list = []
    rule: list = []
    depth = 0
    brackets: list = []  # ("cp", (pos, user, rule, depth)) | ("at", depth, cm)
    nontrivial = False
    sparse = any(op[0] == "obs" for op in ops)
    if sparse:
        ops = list(ops) + [["obs"]]
    for i, op in enumerate(ops):
        name = op[0]
        try:
            if name == "obs":
                pass
            elif name == "pos":
                st.pos = op[1]
                pos = op[1]
            elif name == "upush":
                st.push(op[1])
                user.append(op[1])
            elif name == "upushd":
                st.user_stack.push(op[1])  # directly on the public Stack, not through state.push()
                user.append(op[1])
            elif name == "udrop":
                if not user:
                    continue
                st.drop()
                user.pop()
            elif name == "upop":
                if not user:
                    continue
                got = st.user_stack.pop()
                exp = user.pop()
                if got != exp:
                    return _viol("state", "user-pop-returns-wrong-item", i, op, {"got": got, "expected": exp}, ops)
            elif name == "uclear":
                st.user_stack.clear()
                user = []
            elif name == "rpush":
                st.rule_stack.push(RuleFrame(op[1], 0))
                rule.append(op[1])
            elif name == "rpop":
                if not rule:
                    continue
                got = st.rule_stack.pop().name
                exp = rule.pop()
                if got != exp:
                    return _viol("state", "rule-pop-returns-wrong-item", i, op, {"got": got, "expected": exp}, ops)
            elif name == "ainc":
                st.atomic_depth += 1
                depth += 1
            elif name == "azero":
                st.atomic_depth.zero()
                depth = 0
            elif name == "checkpoint":
                st.checkpoint()
                brackets.append(("cp", (pos, list(user), list(rule), depth)))
            elif name == "ok":
                if not brackets or brackets[-1][0] != "cp":
                    continue
                st.ok()
                brackets.pop()
            elif name == "restore":
                if not brackets or brackets[-1][0] != "cp":
                    continue
                st.restore()
                npos, nuser, nrule, ndepth = brackets.pop()[1]
                # non-trivial: the rollback has to resurrect a user- or rule-stack item
                if nuser[: len(user)] != user[: len(nuser)] or len(nuser) > len(user) or nrule[: len(rule)] != rule[: len(nrule)] or len(nrule) > len(rule):
                    nontrivial = True
                pos, user, rule, depth = npos, nuser, nrule, ndepth
            elif name == "aenter":
                cm = st.atomic_checkpoint()
                cm.__enter__()
                brackets.append(("at", depth, cm))
            elif name == "aexit":
                if not brackets or brackets[-1][0] != "at":
                    continue
                _, d, cm = brackets.pop()
                cm.__exit__(None, None, None)
                depth = d
            else:
                raise ValueError(f"bad op {op}")
            if sparse and name != "obs":
                if stats is not None:
                    stats["steps"] += 1
                continue
            got = (st.pos, list(st.user_stack), [f.name for f in st.rule_stack], int(st.atomic_depth))
            exp = (pos, user, rule, depth)
            if got != exp:
                which = [n for n, a, b in zip(("pos", "user_stack", "rule_stack", "atomic_depth"), got, exp) if a != b]
                return _viol("state", f"{'+'.join(which)}-differ-after-{name}", i, op, {"got": got, "expected": exp}, ops)
            if (st.atomic_depth > 0) != (depth > 0):
                return _viol("state", f"atomic-depth-comparison-differs-after-{name}", i, op, {"expected": depth}, ops)
            if user and st.peek() != user[-1]:
                return _viol("state", f"peek-differs-after-{name}", i, op, {"expected": user[-1]}, ops)
            if list(st.peek_slice()) != user or list(st.peek_slice(1, None)) != user[1:] or list(st.peek_slice(-2, None)) != user[-2:]:
                return _viol("state", f"peek-slice-differs-after-{name}", i, op, {"expected": list(user)}, ops)
        except Exception as e:  # noqa: BLE001
            return _viol("state", f"raises-{type(e).__name__}-in-{name}", i, op, {"exception": repr(e), "model": [pos, list(user), list(rule), depth]}, ops)
        if stats is not None:
            stats["steps"] += 1
    if stats is not None and nontrivial:
        stats["nontrivial_flag"] = True
    return None


EXEC = {"stack": exec_stack, "int": exec_int, "state": exec_state}

# ---------------------------------------------------------------------- generators

STACK_KINDS = ("push", "pop", "clear", "snapshot", "restore", "drop", "peek")
STACK_CODE = {k: i for i, k in enumerate(STACK_KINDS)}


def gen_stack(rng: random.Random, probes: dict) -> list:
    """A dense history (observed after every step) or, one time in four, a SPARSE one: the
    same generators, observed only at explicit seeded ["obs", accessor mask] operations."""
    ops = _gen_stack_dense(rng, probes)
    if rng.random() < 0.25 and len(ops) <= 400:
        p_obs = rng.choice((0.05, 0.15, 0.3, 0.5))
        masks = rng.choice(((1,), (1, 2, 4, 8, 16, 32), (1, 16, 32), (2, 4), (8,), (63,), (1, 3, 5, 9, 17, 33, 63)))
        out = [["obs", rng.choice(masks)]] if rng.random() < 0.5 else []
        for op in ops:
            if op[0] == "peek":
                continue
            out.append(op)
            if rng.random() < p_obs:
                out.append(["obs", rng.choice(masks)])
        if not any(op[0] == "obs" for op in out):
            out.append(["obs", rng.choice(masks)])
        probes["gen_sparse"] += 1
        return out
    return ops


def _gen_stack_dense(rng: random.Random, probes: dict) -> list:
    """Seeded history over a Stack; swarm weights + three biased shapes."""
    ops: list = []
    counter = [0]
    size = [0]
    snaps: list[int] = []  # model sizes at snapshots (to keep pops feasible)
    hi = [0, 0, 0]  # max height, max snapshot depth, max distance popped below the newest level

    def push():
        counter[0] += 1
        ops.append(["push", counter[0]])
        size[0] += 1
        if size[0] > hi[0]:
            hi[0] = size[0]

    def pop():
        if size[0] > 0:
            ops.append(["pop"])
            size[0] -= 1
            if snaps and snaps[-1] - size[0] > hi[2]:
                hi[2] = snaps[-1] - size[0]

    def snapshot():
        ops.append(["snapshot"])
        snaps.append(size[0])
        if len(snaps) > hi[1]:
            hi[1] = len(snaps)

    def restore():
        ops.append(["restore"])
        size[0] = snaps.pop() if snaps else 0

    def drop():
        ops.append(["drop"])
        if snaps:
            snaps.pop()

    def clear():
        ops.append(["clear"])
        size[0] = 0

    mode = rng.random()
    if mode < 0.35:
        # exactly uniform over the feasible abstract histories of the drawn length (each op
        # is weighted by the number of feasible completions): saturates short histories
        n = rng.choices((1, 2, 3, 4, 5, 6, 7), (1, 1, 1, 2, 6, 30, 20))[0]
        acts = {"push": push, "pop": pop, "clear": clear, "snapshot": snapshot, "restore": restore, "drop": drop}
        for left in range(n, 0, -1):
            sn = tuple(snaps)
            succ = [("push", (size[0] + 1, sn)), ("clear", (0, sn)), ("snapshot", (size[0], sn + (size[0],))),
                    ("restore", (sn[-1], sn[:-1]) if sn else (0, ())), ("drop", (size[0], sn[:-1]))]
            if size[0] > 0:
                succ.append(("pop", (size[0] - 1, sn)))
            wts = [_count(st[0], st[1], left - 1) for _, st in succ]
            acts[rng.choices(succ, wts)[0][0]]()
            if size[0] > 0 and rng.random() < 0.1:
                ops.append(["peek"])
        probes["gen_uniform_short"] += 1
        return ops

    big = mode < 0.38
    # swarm weights
    w = {
        "push": rng.choice((1, 2, 3, 5)),
        "pop": rng.choice((1, 2, 3, 5)),
        "clear": rng.choice((0, 0, 1, 1, 2)),
        "snapshot": rng.choice((1, 2, 3)),
        "restore": rng.choice((1, 2, 3)),
        "drop": rng.choice((0, 1, 2, 3)),
        "peek": rng.choice((0, 0, 1)),
    }
    kinds = list(w)
    weights = [w[k] for k in kinds]
    n = rng.choice((rng.randint(1, 12), rng.randint(5, 30), rng.randint(20, 60), rng.randint(40, 200)))
    shapes = rng.random()

    def shape_a():
        # pop below a snapshot's level while >= 2 snapshots are outstanding; drop; restore
        for _ in range(rng.randint(1, 4)):
            push()
        snapshot()
        for _ in range(rng.randint(0, 2)):
            (push if rng.random() < 0.5 else pop)()
        snapshot()
        for _ in range(rng.randint(1, 4)):
            pop()
        for _ in range(rng.randint(0, 2)):
            push()
        drop()
        if rng.random() < 0.5:
            for _ in range(rng.randint(0, 2)):
                pop()
        restore()
        probes["shape_a"] += 1

    def shape_b():
        # push above the level, clear, restore inner, restore outer
        for _ in range(rng.randint(0, 3)):
            push()
        snapshot()
        for _ in range(rng.randint(0, 2)):
            pop()
        for _ in range(rng.randint(0, 2)):
            push()
        snapshot()
        for _ in range(rng.randint(1, 3)):
            push()
        clear()
        (restore if rng.random() < 0.7 else drop)()
        restore()
        probes["shape_b"] += 1

    def shape_c():
        # alternations of snapshot/drop at the low-water mark
        for _ in range(rng.randint(1, 3)):
            push()
        snapshot()
        for _ in range(rng.randint(2, 6)):
            pop()
            snapshot()
            if rng.random() < 0.5:
                pop()
            drop()
            if rng.random() < 0.3:
                push()
        restore()
        probes["shape_c"] += 1

    def shape_d():
        # one run of pops crossing the low-water marks of TWO outstanding snapshots
        for _ in range(rng.randint(2, 4)):
            push()
        snapshot()
        for _ in range(rng.randint(1, 3)):
            push()
        snapshot()
        if rng.random() < 0.5:
            push()
        for _ in range(rng.randint(2, 6)):
            pop()
        for _ in range(rng.randint(0, 2)):
            push()
        (restore if rng.random() < 0.6 else drop)()
        if rng.random() < 0.4:
            pop()
        restore()
        probes["shape_d"] += 1

    def shape_e():
        # clear() while the newest snapshot's low-water mark is already below its level and
        # another snapshot is outstanding; then both are restored
        for _ in range(rng.randint(2, 4)):
            push()
        snapshot()
        if rng.random() < 0.5:
            pop()
        snapshot()
        for _ in range(rng.randint(1, 2)):
            pop()
        for _ in range(rng.randint(0, 2)):
            push()
        clear()
        for _ in range(rng.randint(0, 2)):
            push()
        restore()
        restore()
        if rng.random() < 0.5:
            restore()  # and once more with no snapshot left: must empty the stack
        probes["shape_e"] += 1

    if mode > 0.9994:
        # huge: ONE run of pushes past a power-of-two size (a packed or fixed-width record
        # overflows there), a snapshot, a few operations around it, and the unwinding
        h = rng.choice((300, 1100, 4200, 33000, 66000, 70000, 132000)) + rng.randint(0, 40)
        for _ in range(h):
            push()
        for _ in range(rng.randint(1, 4)):
            snapshot()
            for _ in range(rng.randint(0, 3)):
                (push if rng.random() < 0.5 else pop)()
        for _ in range(rng.randint(1, 6)):
            rng.choice((restore, restore, drop, pop, push, snapshot))()
        if rng.random() < 0.3:
            clear()
        for _ in range(len(snaps)):
            (restore if rng.random() < 0.7 else drop)()
        probes["gen_huge"] += 1
        return ops

    if big:
        # big: long histories made of RUNS (k pushes, k pops, k snapshots, ...) with k log-uniform
        # up to a few hundred, so that stack height, snapshot depth and the number of items
        # popped below a level all pass any size threshold an implementation might have
        # (compaction, chunking, amortised clean-up every N operations)
        cap = rng.choice((40, 150, 400))
        n = rng.choice((200, 500, 1200))

        def run_len():
            return max(1, int(2 ** (rng.random() * cap.bit_length())) % (cap + 1))

        bias = rng.choice(("grow", "deep", "below", "mixed"))
        while len(ops) < n:
            r = rng.random()
            k = run_len()
            if bias == "grow":
                r = r * 0.8  # more pushes/pops
            if r < 0.30:
                for _ in range(k):
                    push()
            elif r < 0.55:
                for _ in range(min(k, size[0])):
                    pop()
            elif r < 0.70:
                for _ in range(k if bias == "deep" else min(k, 6)):
                    snapshot()
                    if bias == "below" and size[0] > 0:
                        for _ in range(min(rng.randint(1, 3), size[0])):
                            pop()
                    elif rng.random() < 0.3:
                        push()
            elif r < 0.82:
                for _ in range(min(k, len(snaps) + 1) if bias == "deep" else 1):
                    restore()
            elif r < 0.94:
                for _ in range(min(k, len(snaps) + 1) if bias == "deep" else 1):
                    drop()
            elif r < 0.96:
                clear()
            else:
                rng.choice((shape_a, shape_c, shape_d, shape_e))()
        for _ in range(len(snaps) + (1 if rng.random() < 0.3 else 0)):
            (restore if rng.random() < 0.7 else drop)()
        probes["gen_big"] += 1
        probes["big_height_ge_100"] += hi[0] >= 100
        probes["big_depth_ge_50"] += hi[1] >= 50
        probes["big_popped_below_level_ge_50"] += hi[2] >= 50
        return ops

    while len(ops) < n:
        if shapes < 0.6 and rng.random() < 0.15:
            rng.choice((shape_a, shape_b, shape_c, shape_d, shape_e))()
            continue
        k = rng.choices(kinds, weights)[0]
        if k == "push":
            push()
        elif k == "pop":
            pop()
        elif k == "clear":
            clear()
        elif k == "snapshot":
            snapshot()
        elif k == "restore":
            if not snaps:
                probes["restore_without_snapshot"] += 1
            restore()
        elif k == "drop":
            drop()
        elif k == "peek" and size[0] > 0:
            ops.append(["peek"])
    return ops


def gen_int(rng: random.Random, probes: dict) -> list:
    ops: list = []
    mode = rng.random()
    if mode < 0.05:
        # big: long runs of equal steps with snapshots in between (run-length or delta
        # encodings merge only after many equal steps), deep snapshot nesting, large values
        n = rng.choice((150, 400, 900))
        step = rng.choice((1, 1, 2, 7, 2**31 - 1, 2**63, 10**30))
        while len(ops) < n:
            r = rng.random()
            k = max(1, int(2 ** (rng.random() * 8)))
            if r < 0.35:
                for _ in range(k):
                    ops.append(["snapshot"])
                    if rng.random() < 0.8:
                        ops.append([rng.choice(("iadd", "add", "iadd", "isub")), step])
            elif r < 0.55:
                for _ in range(k):
                    ops.append(["snapshot"])
            elif r < 0.75:
                for _ in range(k):
                    ops.append(["restore"])
            elif r < 0.9:
                for _ in range(k):
                    ops.append(["drop"])
            elif r < 0.95:
                ops.append(["zero"])
            else:
                ops.append([rng.choice(("iadd", "isub", "add", "sub")), rng.choice((1, step, 3))])
        probes["gen_big"] += 1
        return ops
    n = rng.choice((rng.randint(1, 8), rng.randint(5, 40), rng.randint(30, 120)))
    kinds = ["add", "sub", "zero", "snapshot", "restore", "drop", "mul", "neg", "abs", "floordiv", "mod", "pow", "truediv", "pos", "iadd", "isub"]
    exotic = rng.choice((0, 0, 1))
    weights = [4, 3, 1, 3, 3, rng.choice((0, 1, 3)), rng.choice((0, 1)), rng.choice((0, 1)), rng.choice((0, 1)), exotic, exotic, exotic, exotic, exotic, rng.choice((0, 2, 4)), rng.choice((0, 1, 3))]
    amounts = (1, 1, 1, 2, 3)
    if not exotic and rng.random() < 0.3:
        amounts = (1, 2, 255, 256, 2**31, 2**64 + 1)  # never together with pow / true division
    pows = 0
    for _ in range(n):
        k = rng.choices(kinds, weights)[0]
        if k == "pow":
            pows += 1
            if pows > 2:  # keeps the values (and the run time) bounded
                continue
        if k in ("add", "sub", "iadd", "isub"):
            ops.append([k, rng.choice(amounts)])
        elif k == "mul":
            ops.append([k, rng.choice((0, 1, 2, -1))])
        elif k in ("floordiv", "mod", "truediv"):
            ops.append([k, rng.choice((1, 2, 3, -2))])
        elif k == "pow":
            ops.append([k, rng.choice((0, 1, 2))])
        else:
            ops.append([k])
    return ops


def gen_state(rng: random.Random, probes: dict) -> list:
    ops: list = []
    counter = [0]
    n = rng.choice((rng.randint(1, 10), rng.randint(5, 30), rng.randint(20, 80)))
    max_nest = 8
    if rng.random() < 0.04:
        # big: long histories, deep bracket nesting (thresholds on history length / depth)
        n = rng.choice((200, 500, 1000))
        max_nest = rng.choice((30, 120, 400))
        if rng.random() < 0.15:
            # more open checkpoints than the interpreter has frames
            n, max_nest = 3200, 1400
        probes["gen_big"] += 1
    br: list[str] = []
    usize = [0]
    rsize = [0]
    w = {
        "pos": rng.choice((1, 2)),
        "upush": rng.choice((0, 1, 2, 4)),
        "upushd": rng.choice((0, 1, 2, 4)),
        "udrop": rng.choice((1, 2, 4)),
        "upop": rng.choice((0, 1, 2)),
        "uclear": rng.choice((0, 0, 1)),
        "rpush": rng.choice((0, 1, 2)),
        "rpop": rng.choice((0, 1, 2)),
        "ainc": rng.choice((0, 1, 2)),
        "azero": rng.choice((0, 1)),
        "checkpoint": rng.choice((2, 3, 4)),
        "ok": rng.choice((1, 2, 3)),
        "restore": rng.choice((1, 2, 3)),
        "aenter": rng.choice((0, 1, 2)),
        "aexit": rng.choice((1, 2)),
    }
    if max_nest > 8:
        w["checkpoint"] = rng.choice((4, 6, 9))
        w["upush"] = rng.choice((2, 4, 8))
        w["uclear"] = rng.choice((0, 0, 0, 1))
    if max_nest > 1000:
        w.update({k: min(v, 1) for k, v in w.items()})
        w["checkpoint"] = 14
    kinds = list(w)
    weights = [w[k] for k in kinds]
    # sizes are tracked loosely: the executor skips infeasible pops, so over-approximate
    while len(ops) < n:
        k = rng.choices(kinds, weights)[0]
        if k == "pos":
            ops.append(["pos", rng.randint(0, 9)])
        elif k in ("upush", "upushd"):
            counter[0] += 1
            ops.append([k, f"u{counter[0]}"])
        elif k == "rpush":
            counter[0] += 1
            ops.append(["rpush", f"r{counter[0]}"])
        elif k in ("ok", "restore"):
            if br and br[-1] == "cp":
                br.pop()
                ops.append([k])
        elif k == "aexit":
            if br and br[-1] == "at":
                br.pop()
                ops.append([k])
        elif k == "checkpoint":
            if len(br) < max_nest:
                br.append("cp")
                ops.append([k])
        elif k == "aenter":
            if len(br) < max_nest:
                br.append("at")
                ops.append([k])
        else:
            ops.append([k])
    # close what is still open, with seeded outcomes (a parse always closes its brackets)
    while br:
        b = br.pop()
        ops.append(["aexit"] if b == "at" else [rng.choice(("ok", "restore"))])
    return ops


def _sparsely(gen):
    def g(rng, probes):
        ops = gen(rng, probes)
        if rng.random() < 0.2 and len(ops) <= 400:
            p_obs = rng.choice((0.05, 0.2, 0.5))
            out = []
            for op in ops:
                out.append(op)
                if rng.random() < p_obs:
                    out.append(["obs"])
            if not any(op[0] == "obs" for op in out):
                out.append(["obs"])
            probes["gen_sparse"] += 1
            return out
        return ops

    return g


GEN = {"stack": gen_stack, "int": _sparsely(gen_int), "state": _sparsely(gen_state)}

# ------------------------------------------------------------- abstract-reach measures


def stack_abstract_code(ops) -> int | None:
    """Abstract history = op-kind sequence (items erased, peek erased); None if > 7."""
    code = 1
    n = 0
    for op in ops:
        if op[0] in ("peek", "obs"):
            continue
        n += 1
        if n > 7:
            return None
        code = code * 6 + STACK_CODE[op[0]]
    return code


from functools import lru_cache  # noqa: E402


@lru_cache(maxsize=None)
def _count(size: int, snaps: tuple, left: int) -> int:
    """Number of feasible abstract Stack histories of length `left` from a model state
    (size, snapshot sizes); the only precondition is that pop needs a non-empty stack."""
    if left == 0:
        return 1
    t = _count(size + 1, snaps, left - 1)  # push
    if size > 0:
        t += _count(size - 1, snaps, left - 1)  # pop
    t += _count(0, snaps, left - 1)  # clear
    t += _count(size, snaps + (size,), left - 1)  # snapshot
    if snaps:
        t += _count(snaps[-1], snaps[:-1], left - 1)  # restore
        t += _count(size, snaps[:-1], left - 1)  # drop
    else:
        t += _count(0, (), left - 1)
        t += _count(size, (), left - 1)
    return t


def feasible_stack_histories(max_len: int) -> dict[int, int]:
    return {n: _count(0, (), n) for n in range(1, max_len + 1)}


def kind_hash(ops) -> int:
    h = 1469598103934665603
    for op in ops:
        for ch in op[0]:
            h = ((h ^ ord(ch)) * 1099511628211) & 0xFFFFFFFFFFFF
        h = ((h ^ 0x2C) * 1099511628211) & 0xFFFFFFFFFFFF
    return h


# --------------------------------------------------------------------------- the check


def run_batch(job) -> dict:
    """Child: generate and execute a batch of histories."""
    import gc  # noqa: PLC0415

    gc.disable()
    subject = job["subject"]
    rng = random.Random(job["seed"])
    probes = {k: 0 for k in ("gen_uniform_short", "shape_a", "shape_b", "shape_c", "shape_d", "shape_e", "restore_without_snapshot", "gen_big", "gen_huge", "gen_sparse", "big_height_ge_100", "big_depth_ge_50", "big_popped_below_level_ge_50")}
    st = {"steps": 0, "nontrivial_flag": False}
    distinct_nt: set[int] = set()
    abstract: set[int] = set()
    violations = []
    samples = []
    n_hist = 0
    gen = GEN[subject]
    ex = EXEC[subject]
    import hashlib  # noqa: PLC0415

    log = hashlib.blake2b(digest_size=12)  # event-log digest: every generated op and verdict
    for _ in range(job["n"]):
        ops = gen(rng, probes)
        st["nontrivial_flag"] = False
        v = ex(ops, st)
        log.update(repr((ops, None if v is None else (v["signature"], v["step"]), st["nontrivial_flag"])).encode())
        n_hist += 1
        if v is not None:
            if len(violations) < 5:
                v["batch_seed"] = job["seed"]
                violations.append(v)
            continue
        if st["nontrivial_flag"]:
            distinct_nt.add(kind_hash(ops))
            if len(samples) < 2 and len(ops) <= 14:
                samples.append(f"{subject}: " + ", ".join(op[0] + (f"({op[1]})" if len(op) > 1 else "") for op in ops))
        if subject == "stack":
            c = stack_abstract_code(ops)
            if c is not None:
                abstract.add(c)
    stats = {
        "abandoned_slow_histories": st.get("abandoned_slow", 0),
        "histories": {subject: n_hist},
        "steps": {subject: st["steps"]},
        "set_nontrivial_" + subject: sorted(distinct_nt),
        "probes": probes,
        "sample_histories": samples,
        "diverging_histories": {subject: len(violations)},
    }
    if subject == "stack":
        stats["set_abstract_stack"] = sorted(abstract)
    return {"stats": stats, "violations": violations, "digest": log.hexdigest()}


# ----- Hypothesis stateful machine: second, independent history generator (thorough) -----


def run_hypothesis(job) -> dict:
    """Child: run a RuleBasedStateMachine with one PRNG value; re-emit failures as plans."""
    import gc  # noqa: PLC0415

    gc.enable()
    from hypothesis import seed as hseed  # noqa: PLC0415
    from hypothesis import settings, HealthCheck  # noqa: PLC0415
    from hypothesis import strategies as stg  # noqa: PLC0415
    from hypothesis.stateful import RuleBasedStateMachine, precondition, rule, run_state_machine_as_test  # noqa: PLC0415

    subject = job["subject"]
    last = {"ops": None, "viol": None}
    counts = {"examples": 0, "steps": 0}

    class Base(RuleBasedStateMachine):
        def __init__(self):
            super().__init__()
            self.ops: list = []
            self.n = 0
            counts["examples"] += 1

        def step(self, op):
            self.ops.append(op)
            counts["steps"] += 1
            v = EXEC[subject](self.ops)
            if v is not None:
                last["ops"] = list(self.ops)
                last["viol"] = v
                raise AssertionError(v["signature"])

    if subject == "stack":

        class M(Base):
            def size(self):
                # model size by replaying kinds only
                size, snaps = 0, []
                for op in self.ops:
                    k = op[0]
                    if k == "push":
                        size += 1
                    elif k == "pop":
                        size -= 1
                    elif k == "clear":
                        size = 0
                    elif k == "snapshot":
                        snaps.append(size)
                    elif k == "restore":
                        size = snaps.pop() if snaps else 0
                    elif k == "drop" and snaps:
                        snaps.pop()
                return size

            @rule()
            def push(self):
                self.n += 1
                self.step(["push", self.n])

            @precondition(lambda self: self.size() > 0)
            @rule()
            def pop(self):
                self.step(["pop"])

            @rule()
            def clear(self):
                self.step(["clear"])

            @rule()
            def snapshot(self):
                self.step(["snapshot"])

            @rule()
            def restore(self):
                self.step(["restore"])

            @rule()
            def drop(self):
                self.step(["drop"])

    elif subject == "int":

        class M(Base):
            @rule(k=stg.integers(1, 3))
            def add(self, k):
                self.step(["add", k])

            @rule(k=stg.integers(1, 3))
            def sub(self, k):
                self.step(["sub", k])

            @rule()
            def zero(self):
                self.step(["zero"])

            @rule()
            def snapshot(self):
                self.step(["snapshot"])

            @rule()
            def restore(self):
                self.step(["restore"])

            @rule()
            def drop(self):
                self.step(["drop"])

    else:

        class M(Base):
            def innermost(self):
                br = []
                for op in self.ops:
                    k = op[0]
                    if k == "checkpoint":
                        br.append("cp")
                    elif k == "aenter":
                        br.append("at")
                    elif k in ("ok", "restore", "aexit"):
                        br.pop()
                return br[-1] if br else None

            @rule(k=stg.integers(0, 5))
            def pos(self, k):
                self.step(["pos", k])

            @rule()
            def upush(self):
                self.n += 1
                self.step(["upush", f"u{self.n}"])

            @rule()
            def udrop(self):
                self.step(["udrop"])

            @rule()
            def uclear(self):
                self.step(["uclear"])

            @rule()
            def rpush(self):
                self.n += 1
                self.step(["rpush", f"r{self.n}"])

            @rule()
            def rpop(self):
                self.step(["rpop"])

            @rule()
            def ainc(self):
                self.step(["ainc"])

            @rule()
            def azero(self):
                self.step(["azero"])

            @rule()
            def checkpoint(self):
                self.step(["checkpoint"])

            @rule()
            def aenter(self):
                self.step(["aenter"])

            @precondition(lambda self: self.innermost() == "cp")
            @rule()
            def ok(self):
                self.step(["ok"])

            @precondition(lambda self: self.innermost() == "cp")
            @rule()
            def restore(self):
                self.step(["restore"])

            @precondition(lambda self: self.innermost() == "at")
            @rule()
            def aexit(self):
                self.step(["aexit"])

    violations = []
    try:
        run_state_machine_as_test(
            hseed(job["hseed"])(M),
            settings=settings(
                max_examples=job.get("max_examples", 300),
                stateful_step_count=job.get("step_count", 24),
                database=None,
                deadline=None,
                report_multiple_bugs=False,
                suppress_health_check=list(HealthCheck),
            ),
        )
    except AssertionError:
        if last["viol"] is None:
            raise
        v = last["viol"]  # the last failing example Hypothesis ran is its shrunk one
        v["found_by"] = f"hypothesis-seed-{job['hseed']}"
        violations.append(v)
    stats = {
        "hypothesis": {"machines_run": 1, "examples": counts["examples"], "steps": counts["steps"], "failing_machines": len(violations)},
    }
    return {"stats": stats, "violations": violations}


def run_plan_child(plan) -> dict | None:
    return EXEC[plan["subject"]](plan["ops"])


class Check:
    id = "C09"

    def make_ctx(self, tier):
        return {"tier": tier}

    def tier_params(self, tier):
        if tier == "quick":
            return {"n_jobs": 16 * 24, "budget_s": 240.0}
        return {"n_jobs": -1, "budget_s": float(common.env_int("VERIF_BUDGET_S", 300))}

    def make_job(self, seed, k, tier):
        if tier == "thorough" and k < 48:
            return {"kind": "hyp", "subject": SUBJECTS[k % 3], "hseed": common.derive_seed("C09-hyp", seed, k) % (2**31)}
        # two thirds of the batches go to the Stack, where the delta encoding lives
        subject = ("stack", "stack", "state", "stack", "int", "state")[k % 6]
        n = {"stack": 4000, "int": 6000, "state": 2500}[subject]
        return {"kind": "rand", "subject": subject, "seed": common.derive_seed("C09", seed, k), "n": n}

    def run_job(self, job, ctx):
        if job["kind"] == "hyp":
            return run_in_child(run_hypothesis, job, timeout=600.0)
        return run_in_child(run_batch, job, timeout=300.0)

    # replay / minimisation ---------------------------------------------------------
    def check_plan(self, plan, ctx=None):
        return run_in_child(run_plan_child, plan, timeout=30.0)

    def plan_size(self, plan):
        return len(plan["ops"])

    def shrink_candidates(self, plan):
        """Yield simpler plans (ddmin over the operation list, then argument shrinking)."""
        ops = plan["ops"]
        n = len(ops)
        chunk = n // 2
        while chunk >= 1:
            for start in range(0, n, chunk):
                cand = ops[:start] + ops[start + chunk :]
                if cand:
                    yield {**plan, "ops": cand}
            chunk //= 2
        for i, op in enumerate(ops):
            if len(op) > 1 and isinstance(op[1], int) and op[1] > 1 and op[0] in ("add", "sub", "pos"):
                yield {**plan, "ops": ops[:i] + [[op[0], 1]] + ops[i + 1 :]}

    def describe(self, plan):
        return f"{plan['subject']}: " + ", ".join(op[0] + (f"({op[1]})" if len(op) > 1 else "") for op in plan["ops"])

    def vacuity(self, acc):
        st = acc.get("steps", {})
        return [f"vacuous run: no {s} operation was executed and observed" for s in SUBJECTS if not st.get(s)] if acc.get("histories") else []

    # evidence ------------------------------------------------------------------------
    def evidence(self, acc, tier):
        hist = acc.get("histories", {})
        total = sum(hist.values()) + acc.get("hypothesis", {}).get("examples", 0)
        nontrivial = sum(len(acc.get("set_nontrivial_" + s, ())) for s in SUBJECTS)
        abstract = acc.get("set_abstract_stack", set())
        feas = feasible_stack_histories(7)
        by_len: dict[int, int] = {}
        for c in abstract:
            n = 0
            while c > 1:
                c //= 6
                n += 1
            by_len[n] = by_len.get(n, 0) + 1
        saturation = {
            str(n): {"reached": by_len.get(n, 0), "feasible": feas[n], "fraction": round(by_len.get(n, 0) / feas[n], 4)}
            for n in range(1, 8)
        }
        samples = acc.get("sample_histories", [])[:6]
        return {
            "evaluations": total,
            "distinct_nontrivial": nontrivial,
            "rule": (
                "seeded generation of operation histories (swarm-drawn op weights, lengths 1-200, three biased shapes around "
                "nested snapshots; 30% uniform short histories) over Stack / SnapshottingInt / ParserState, each executed step "
                "by step against a full-copy reference model with the visible contents observed after every step. A history is "
                "non-trivial when a restore has to resurrect at least one item popped below the snapshot level (Stack), changes "
                "the value (counter), or has to resurrect a user- or rule-stack item (ParserState); distinct = distinct "
                "operation-kind sequence (48-bit hash)."
            ),
            "samples": samples or [{"note": "no non-trivial sample short enough to print"}],
            "histories_per_subject": hist,
            "operations_executed": acc.get("steps", {}),
            "abstract_stack_histories_saturation_by_length": saturation,
            "generator_probes": acc.get("probes", {}),
            "huge_histories_abandoned_at_their_wall_cap": {"count": acc.get("abandoned_slow_histories", 0), "note": "a history of more than 2000 operations that runs longer than 20 s is abandoned and counted, not judged: speed on a 100 000-item stack is not C09's subject"},
            "hypothesis_machines": acc.get("hypothesis", {}),
            "fault_kinds": {"rollback (restore) and release (drop) as generated operations": "counted inside operations_executed; no other fault kind applies: single thread, no clock, no I/O"},
            "schedule_space": "trivial (single thread); the search is over operation histories only",
            "components": {"real": ["pest.stack.Stack", "pest.checkpoint_int.SnapshottingInt", "pest.state.ParserState", "pest.state.RuleFrame"], "stub": [], "model": "list/int + list of full copies (vpest/c09.py exec_*)"},
        }
