"""Canonical fork source for C15 runs.

A fresh interpreter started with fixed argv and environment imports pest and the harness,
disables GC and then only forks: one child per request, which executes the plan it was
handed and reports one JSON document.  The zygote never builds a parser and never keeps a
small object alive across requests, so every run -- during search in any worker, and during
replay or minimisation in any later process -- starts from the same heap.  That makes even
allocator-dependent behaviour (id() reuse after an object was collected) a function of the
explicit plan.

Protocol (stdin/stdout, binary): request  = u32 length, u32 timeout_ms, payload (JSON plan)
                                 response = u8 status (0 ok, 1 error), u32 length, payload
"""
import gc
import json
import os
import select
import signal
import struct
import sys
import time

sys.path.insert(0, os.path.dirname(os.path.dirname(os.path.abspath(__file__))))


def readn(fd, n):
    buf = b""
    while len(buf) < n:
        b = os.read(fd, n - len(buf))
        if not b:
            return None
        buf += b
    return buf


def main():
    from vpest import common

    common.import_pest()
    from vpest import c15, framework

    gc.disable()
    inp, out = 0, os.dup(1)
    dn = os.open(os.devnull, os.O_WRONLY)
    os.dup2(dn, 1)
    framework._die_with_parent()
    while True:
        hdr = readn(inp, 8)
        if hdr is None:
            break
        n, tmo = struct.unpack("<II", hdr)
        payload = readn(inp, n)
        if payload is None:
            break
        r, w = os.pipe()
        pid = os.fork()
        if pid == 0:
            code = 0
            try:
                os.close(r)
                os.close(inp)
                os.close(out)
                framework._die_with_parent()
                import faulthandler

                faulthandler.enable()
                faulthandler.register(signal.SIGUSR1, all_threads=True, chain=False)
                try:
                    res = {"ok": c15.execute_plan(json.loads(payload))}
                except BaseException as e:  # noqa: BLE001
                    import traceback

                    res = {"harness_exception": f"{type(e).__name__}: {e}", "traceback": traceback.format_exc()[-3000:]}
                data = json.dumps(res, default=repr).encode()
                with os.fdopen(w, "wb") as f:
                    f.write(data)
            except BaseException:  # noqa: BLE001
                code = 3
            finally:
                os._exit(code)
        os.close(w)
        chunks = []
        deadline = time.monotonic() + tmo / 1000.0
        timed_out = False
        while True:
            left = deadline - time.monotonic()
            if left <= 0:
                timed_out = True
                break
            ready, _, _ = select.select([r], [], [], min(left, 1.0))
            if ready:
                b = os.read(r, 1 << 16)
                if not b:
                    break
                chunks.append(b)
        os.close(r)
        if timed_out:
            try:
                os.kill(pid, signal.SIGUSR1)
                time.sleep(0.2)
                os.kill(pid, signal.SIGKILL)
            except ProcessLookupError:
                pass
        _, status = os.waitpid(pid, 0)
        data = b"".join(chunks)
        if timed_out:
            st, data = 1, f"child timed out after {tmo / 1000.0}s".encode()
        elif not data:
            st, data = 1, f"child died without result (wait status {status})".encode()
        else:
            st = 0
        os.write(out, struct.pack("<BI", st, len(data)))
        view = memoryview(data)
        while view:
            k = os.write(out, view[: 1 << 16])
            view = view[k:]
        del chunks, data, payload, view


if __name__ == "__main__":
    main()
