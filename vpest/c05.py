"""C05 -- stack operations match their specification and are undone on backtracking.

The simulator keeps ONE live ParserState per history and plays the environment of the
stack operations: it applies real rules (atoms and composites of a seeded toolbox grammar,
loaded through the real front end, in four execution modes) to that state one after the
other and decides by the seed when an enclosing construct "fails" (injects restore()) or
"succeeds" (injects ok()), at any nesting depth, after any number of inner successes.

Oracle (DESIGN.md section 6.3), outcome-agnostic -- it never predicts whether an operator
matches, it only looks at what the implementation itself did:
  O1 exact transition of every primitive event seen by the rule tap
  O2 nothing ever raises
  O3 every restore() (the implementation's or the simulator's) is exact (bracket shadow)
  O4 structural backtracking clause on the implementation's own call tree: every composite
     rule in *normal form* (one operator over rule references) is checked at its own
     boundaries -- an operand call that returned False must have left no stack change at
     the next observation point (next operand call or the rule's return); a predicate rule
     returns with the stack it was entered with; PUSH(x) adds exactly the text x matched
  O5 = O4's predicate clause (any nesting depth)
What is NOT asserted: PEG control flow itself (C03), interpreter == generated (C01),
out-of-range PEEK slices, implicit trivia, failure labels, pairs.
"""

from __future__ import annotations

import random
import types

from . import common
from .framework import run_in_child

# =============================================================================== atoms

# name -> (pest source, spec)
ATOMS: dict[str, tuple[str, tuple]] = {
    "a_push_a": ('PUSH("a")', ("push", ("lit", "a"))),
    "a_push_b": ('PUSH("b")', ("push", ("lit", "b"))),
    "a_push_ab": ('PUSH("ab")', ("push", ("lit", "ab"))),
    "a_push_e": ('PUSH("")', ("push", ("lit", ""))),
    "a_push_r": ("PUSH('a'..'b')", ("push", ("set", "ab"))),
    "a_push_c": ('PUSH("a" | "b")', ("push", ("set", "ab"))),
    "a_push_p": ('PUSH("a"+)', ("push", ("plus", "a"))),
    "a_pushl_b": ('PUSH_LITERAL("b")', ("pushl", "b")),
    "a_pushl_ab": ('PUSH_LITERAL("ab")', ("pushl", "ab")),
    "a_pushl_e": ('PUSH_LITERAL("")', ("pushl", "")),
    "a_peek": ("PEEK", ("peek",)),
    "a_pop": ("POP", ("pop",)),
    "a_drop": ("DROP", ("drop",)),
    "a_peek_all": ("PEEK_ALL", ("peek_all",)),
    "a_pop_all": ("POP_ALL", ("pop_all",)),
    "a_sl_all": ("PEEK[..]", ("slice", None, None)),
    "a_sl_0_1": ("PEEK[0..1]", ("slice", 0, 1)),
    "a_sl_1_": ("PEEK[1..]", ("slice", 1, None)),
    "a_sl__1": ("PEEK[..1]", ("slice", None, 1)),
    "a_sl_m1_": ("PEEK[-1..]", ("slice", -1, None)),
    "a_sl__m1": ("PEEK[..-1]", ("slice", None, -1)),
    "a_sl_m2_m1": ("PEEK[-2..-1]", ("slice", -2, -1)),
    "a_sl_0_2": ("PEEK[0..2]", ("slice", 0, 2)),
    "a_sl_1_2": ("PEEK[1..2]", ("slice", 1, 2)),
    "a_sl__0": ("PEEK[..0]", ("slice", None, 0)),
    "a_sl_0_0": ("PEEK[0..0]", ("slice", 0, 0)),
    "a_sl_m1_0": ("PEEK[-1..0]", ("slice", -1, 0)),
    "a_sl_2_": ("PEEK[2..]", ("slice", 2, None)),
    "a_sl__2": ("PEEK[..2]", ("slice", None, 2)),
    "a_sl__m2": ("PEEK[..-2]", ("slice", None, -2)),
    "a_sl_m2_": ("PEEK[-2..]", ("slice", -2, None)),
    "a_sl_2_1": ("PEEK[2..1]", ("slice", 2, 1)),
    "a_sl_m1_m2": ("PEEK[-1..-2]", ("slice", -1, -2)),
    "a_sl_m1_m1": ("PEEK[-1..-1]", ("slice", -1, -1)),
    "a_sl_1_m1": ("PEEK[1..-1]", ("slice", 1, -1)),
    # idioms whose exact transition follows from PEEK's clause and the definition of ! ~ * ANY
    # (the surround.pest idiom "read up to the pushed delimiter"; the optimizer rewrites it)
    "i_until_peek": ("(!PEEK ~ ANY)*", ("until", ())),
    "i_until_peek_b": ('(!(PEEK | "b") ~ ANY)*', ("until", ("b",))),
    "i_until_b_peek": ('(!("b" | PEEK) ~ ANY)*', ("until", ("b",))),
    # ordered choices of literals with a stack operation in a nested group (what the optimizer's
    # choice-squashing pass has to leave alone): the transition is the definition of `|`
    "i_lits_or_pop": ('"b" | "aa" | ("ab" | POP)', ("choice", (("lit", "b"), ("lit", "aa"), ("lit", "ab"), ("pop",)))),
    "i_lits_or_peek": ('("ab" | "b") | PEEK | "a"', ("choice", (("lit", "ab"), ("lit", "b"), ("peek",), ("lit", "a")))),
    "i_lit_or_drop": ('"a" | ("bb" | DROP)', ("choice", (("lit", "a"), ("lit", "bb"), ("drop",)))),
    "a_push_any": ("PUSH(ANY)", ("push", ("any",))),
    "a_push_ci": ('PUSH(^"ab")', ("push", ("ci", "ab"))),
    "a_push_ci1": ('PUSH(^"b")', ("push", ("ci", "b"))),
    "l_a": ('"a"', ("lit", "a")),
    "l_b": ('"b"', ("lit", "b")),
    "l_ab": ('"ab"', ("lit", "ab")),
}
LITERALS = ("l_a", "l_b", "l_ab")
PUSHES = tuple(n for n in ATOMS if n.startswith("a_push"))
KIND = {
    "push": "PUSH",
    "pushl": "PUSH_LITERAL",
    "peek": "PEEK",
    "pop": "POP",
    "drop": "DROP",
    "peek_all": "PEEK_ALL",
    "pop_all": "POP_ALL",
    "slice": "PEEK_SLICE",
    "lit": "LITERAL",
    "until": "PEEK_IDIOM",
    "choice": "CHOICE_IDIOM",
}


def match_simple(m, text: str, pos: int) -> int | None:
    """Reference matcher for the arguments of PUSH(e) and for literals: end or None."""
    if m[0] == "lit":
        return pos + len(m[1]) if text.startswith(m[1], pos) else None
    if m[0] == "any":
        return pos + 1 if pos < len(text) else None
    if m[0] == "any2":
        return pos + 2 if pos + 1 < len(text) else None
    if m[0] == "ci":
        return pos + len(m[1]) if text[pos : pos + len(m[1])].lower() == m[1].lower() and len(text) >= pos + len(m[1]) else None
    if m[0] == "set":
        return pos + 1 if pos < len(text) and text[pos] in m[1] else None
    if m[0] == "plus":
        e = pos
        while text.startswith(m[1], e):
            e += len(m[1])
        return e if e > pos else None
    raise ValueError(m)


def slice_in_range(a, b, n):
    """pest's constrain_idxs: normalised bounds, or None when out of range."""

    def norm(i):
        if i is None:
            return None
        if i > n:
            return -1
        if i >= 0:
            return i
        return n + i if n + i >= 0 else -1

    na = 0 if a is None else norm(a)
    nb = n if b is None else norm(b)
    if na == -1 or nb == -1:
        return None
    return na, nb


def spec_apply(spec, text: str, pos: int, stack: list[str]):
    """Specified transition: (result, new_pos, new_stack, specified?).

    `specified` is False where the statement gives no expected result (out-of-range
    slice); the unconditional clauses (failure changes nothing, never raises) still hold.
    """
    k = spec[0]
    if k == "push":
        e = match_simple(spec[1], text, pos)
        if e is None:
            return False, pos, stack, True
        return True, e, stack + [text[pos:e]], True
    if k == "pushl":
        return True, pos, stack + [spec[1]], True
    if k == "lit":
        e = match_simple(spec, text, pos)
        return (e is not None), (pos if e is None else e), stack, True
    if k in ("peek", "pop"):
        if stack and text.startswith(stack[-1], pos):
            return True, pos + len(stack[-1]), (stack[:-1] if k == "pop" else stack), True
        return False, pos, stack, True
    if k == "drop":
        if stack:
            return True, pos, stack[:-1], True
        return False, pos, stack, True
    if k in ("peek_all", "pop_all"):
        s = "".join(reversed(stack))
        if text.startswith(s, pos):
            return True, pos + len(s), ([] if k == "pop_all" else stack), True
        return False, pos, stack, True
    if k == "choice":
        # ordered choice over terminals: the first alternative that matches wins
        for alt in spec[1]:
            r = spec_apply(alt, text, pos, stack)
            if r[0]:
                return r[0], r[1], r[2], True
        return False, pos, stack, True
    if k == "until":
        # (!(PEEK | lits) ~ ANY)*: stop at the first offset where the top entry (if any) or
        # one of the literals starts; an empty-string top matches at once; else run to the end
        stops = list(spec[1]) + ([stack[-1]] if stack else [])
        e = pos
        while e < len(text) and not any(text.startswith(x, e) for x in stops):
            e += 1
        return True, e, stack, True
    if k == "slice":
        rng = slice_in_range(spec[1], spec[2], len(stack))
        if rng is None:
            # unspecified by the statement; this port clamps like a Python slice
            s = "".join(stack[slice(spec[1], spec[2])])
            ok = text.startswith(s, pos)
            return ok, (pos + len(s) if ok else pos), stack, False
        s = "".join(stack[rng[0] : rng[1]]) if rng[1] > rng[0] else ""
        if text.startswith(s, pos):
            return True, pos + len(s), stack, True
        return False, pos, stack, True
    raise ValueError(spec)


# ============================================================ toolbox grammar (seeded)
#
# AST nodes (JSON lists): ["ref", atom] ["call", rule] ["seq", [..]] ["alt", [..]]
# ["opt", e] ["star", e] ["plus", e] ["and", e] ["not", e] ["rep", e, kind, m, n]
# ["pushx", e]


def gen_toolbox(rng: random.Random) -> dict:
    """6-14 composite rules. About two thirds are in *normal form*: one operator whose
    operands are rule references, sequences of rule references or bounded repetitions of a
    rule reference -- the shapes whose operand results the structural oracle O4 can read off
    the implementation's own call tree.  The rest are inline random expressions (depth <= 3)
    that serve as operands and exercise O1-O3 in nested inline contexts.  A leaf is a named
    rule (tapped) or, in a quarter of the toolboxes' leaves, the stack operation written
    INLINE (`&POP`, `DROP?`, `(PUSH("a") | POP_ALL)`): terminals directly under an operator.
    40 % of the toolboxes define implicit WHITESPACE and/or COMMENT."""
    n_rules = rng.randint(6, 14)
    atom_w = {n: 1.0 for n in ATOMS}
    for n in ("a_pop", "a_peek", "a_drop", "a_push_a", "a_push_ab", "a_pop_all", "a_peek_all"):
        atom_w[n] = rng.choice((2.0, 4.0))
    for n in LITERALS:
        atom_w[n] = rng.choice((1.5, 3.0))
    names = list(atom_w)
    weights = [atom_w[n] for n in names]
    use_rep = rng.random() < 0.5
    use_pushx = rng.random() < 0.6
    p_nf = rng.choice((0.5, 0.7, 0.9))
    p_inl = rng.choice((0.0, 0.15, 0.3, 0.5))
    trivia = rng.choices((None, "ws", "comment", "both", "ws_nonsilent", "comment_stack", "both_stack", "ws_stack", "ws_push"), (54, 9, 8, 7, 5, 5, 6, 4, 2))[0]

    rules: dict[str, dict] = {}
    consuming: set[str] = set(LITERALS)  # rules that consume >= 1 char whenever they succeed

    p_tag = rng.choice((0.0, 0.0, 0.1, 0.25))

    def maybe_tag(e):
        return ["tag", e] if p_tag and rng.random() < p_tag else e

    def atom():
        a = rng.choices(names, weights)[0]
        if a in INLINE_OK and rng.random() < p_inl:
            return maybe_tag(["inl", a])
        return maybe_tag(["ref", a])

    def ref(prefer_comp=0.5):
        if rules and rng.random() < prefer_comp:
            return ["call", rng.choice(list(rules))]
        return atom()

    def nref(prefer_comp=0.5):
        # a NAMED leaf (tapped, observable)
        if rules and rng.random() < prefer_comp:
            return ["call", rng.choice(list(rules))]
        return ["ref", rng.choices(names, weights)[0]]

    def progress_ref():
        # operand of * + {..}: every successful evaluation consumes input or strictly
        # shrinks the stack (well-formedness premise; guarantees termination)
        cands = [["call", r] for r in rules if r in consuming]
        if cands and rng.random() < 0.6:
            return rng.choice(cands)
        return [rng.choice(("ref", "ref", "inl")) if p_inl else "ref", rng.choice(LITERALS + ("a_pop", "a_drop"))]

    def progress_seq():
        items = [["ref", rng.choice(LITERALS)]] + [nref() for _ in range(rng.randint(1, 2))]
        return ["seq", items]

    def progress_body(depth):
        if rng.random() < 0.3:
            return [rng.choice(("ref", "inl")) if p_inl else "ref", rng.choice(("a_pop", "a_drop"))]
        items = [["ref", rng.choice(LITERALS)]]
        for _ in range(rng.randint(0, 2)):
            items.append(expr(depth - 1))
        return ["seq", items] if len(items) > 1 else items[0]

    def bounded(body):
        rk = rng.choice(("exact", "min", "max", "minmax"))
        m = rng.randint(1, 2)
        n = m + rng.randint(1, 2)
        return ["rep", body, rk, m, n]

    def expr(depth):
        if depth <= 0 or rng.random() < 0.25:
            return ref(0.2)
        kinds = ["seq", "alt", "opt", "star", "plus", "and", "not"]
        w = [4, 3, 3, 1.5, 1, 1.5, 1.5]
        if use_rep:
            kinds.append("rep")
            w.append(1.5)
        if use_pushx:
            kinds.append("pushx")
            w.append(1)
        k = rng.choices(kinds, w)[0]
        if k in ("seq", "alt"):
            return maybe_tag([k, [expr(depth - 1) for _ in range(rng.randint(2, 3))]])
        if k in ("opt", "and", "not"):
            return [k, expr(depth - 1)]
        if k in ("star", "plus"):
            return [k, progress_body(depth)]
        if k == "pushx":
            return maybe_tag(["pushx", expr(depth - 1)])
        return bounded(progress_body(depth))

    def operand():
        # what the structural oracle can judge: a named leaf, a sequence of named leaves, a
        # bounded repetition of a progressing named leaf -- or (unjudged, for O1-O3 and the
        # predicate clause) an inline terminal
        r = rng.random()
        if r < 0.55:
            return ref()
        if r < 0.85:
            return ["seq", [nref() for _ in range(rng.randint(2, 3))]]
        if use_rep:
            pr = progress_ref()
            return bounded(pr if pr[0] != "inl" else ["ref", pr[1]])
        return ref()

    def normal_form():
        kinds = ["seq", "alt", "opt", "star", "plus", "and", "not"]
        w = [3, 3, 3, 1.5, 1, 2, 2]
        if use_rep:
            kinds.append("rep")
            w.append(1.5)
        if use_pushx:
            kinds.append("pushx")
            w.append(1)
        k = rng.choices(kinds, w)[0]
        if k == "seq":
            return [k, [ref() for _ in range(rng.randint(2, 3))]]
        if k == "alt":
            return [k, [operand() for _ in range(rng.randint(2, 3))]]
        if k in ("opt", "and", "not"):
            return [k, operand()]
        if k == "pushx":
            return [k, ref(0.7)]
        if k in ("star", "plus"):
            return [k, progress_seq() if rng.random() < 0.35 else progress_ref()]
        return bounded(progress_seq() if rng.random() < 0.4 else progress_ref())

    def is_consuming(e):
        k = e[0]
        if k in ("ref", "call", "inl"):
            return e[1] in consuming
        if k == "seq":
            return any(is_consuming(x) for x in e[1])
        if k == "alt":
            return all(is_consuming(x) for x in e[1])
        if k in ("plus", "pushx", "tag"):
            return is_consuming(e[1])
        if k == "rep":
            return e[2] in ("exact", "min", "minmax") and is_consuming(e[1])
        return False

    def cycle_gadget():
        # RECURSION: a cycle of rules kg -> ks -> kv -> kg (every turn consumes a literal first, so
        # it terminates) in which the stack is written in one place only, defined in a seeded
        # order with the alternatives in a seeded order -- plus one user ku that wraps the cycle
        # in a backtracking operator with a tail that can fail after the cycle committed its
        # changes.  Whatever an implementation (or its optimizer) decides ABOUT a rule once and
        # for all -- "cannot touch the stack", "is pure" -- meets its fixed-point problem here.
        lit = lambda: ["ref", rng.choice(LITERALS)]  # noqa: E731
        x = rng.choice((["ref", rng.choice(("a_push_a", "a_push_b", "a_push_ab", "a_push_r", "a_push_any"))], ["seq", [lit(), ["ref", rng.choices(names, weights)[0]]]], ["seq", [lit(), ["ref", rng.choice(("a_pop", "a_drop", "a_pushl_b", "a_pop_all"))]]]))
        alts = [["call", "kg"], x]
        if rng.random() < 0.5:
            alts.reverse()
        body = ["call", "kv"]
        g = {
            "kv": ["alt", alts],
            "ks": rng.choice((["star", body], ["star", body], ["plus", body], ["opt", body], ["rep", body, "max", 1, 3], ["rep", body, "minmax", 1, 2])),
            "kg": ["seq", [lit(), ["call", "ks"]] + ([lit()] if rng.random() < 0.7 else [])],
        }
        tail = ["seq", [["call", rng.choice(("kg", "kg", "kv"))], rng.choice((lit(), lit(), ["ref", "a_pop"], ["ref", "a_peek"]))]]
        g["ku"] = rng.choice((["opt", tail], ["opt", tail], ["star", tail], ["alt", [tail, ["ref", rng.choices(names, weights)[0]]]], ["not", tail], ["and", tail], ["plus", tail]))
        order = ["kv", "ks", "kg"]
        rng.shuffle(order)
        for nm in order + ["ku"]:
            rules[nm] = {"mod": rng.choices(("", "_", "@"), (8, 1, 1))[0] if nm != "ku" else "", "ast": g[nm]}
        consuming.update(("kg", "kv"))
        if g["ks"][0] == "plus" or (g["ks"][0] == "rep" and g["ks"][2] == "minmax"):
            consuming.add("ks")
        if g["ku"][0] == "plus":
            consuming.add("ku")

    def terminal_rules():
        # TERMINAL-ONLY operands: one operator over sequences / choices of stack operations and
        # literals written inline -- no rule reference anywhere inside, so nothing of it shows in
        # the call tree.  What such an operand does is fixed by the transitions of its terminals
        # alone (clause O6 evaluates it with the same spec_apply that judges O1).
        # (no ranges and no case-insensitive operands: generated code matches 'a'..'b' through a
        # regex compiled with re.I -- whether "A" matches is C12's subject, and this clause has
        # to know whether a terminal matches.  Exact string literals are matched with startswith.)
        inl = [n for n in INLINE_OK if n not in ("a_push_r", "a_push_ci", "a_push_ci1")]
        iw = [0.15 if n.startswith("a_sl_") else 2.5 if n in LITERALS else atom_w[n] for n in inl]

        def t():
            return ["inl", rng.choices(inl, iw)[0]]

        def tseq(progress=False):
            items = [["inl", rng.choice(LITERALS)]] if progress else [t()]
            items += [t() for _ in range(rng.randint(1, 2))]
            return ["seq", items]

        def operand():
            r = rng.random()
            return tseq() if r < 0.7 else (["alt", [tseq(), tseq()]] if r < 0.9 else t())

        for i in range(rng.randint(1, 3)):
            k = rng.choice(("opt", "opt", "alt", "alt", "star", "plus"))
            if k == "opt":
                e = ["opt", operand()]
            elif k == "alt":
                e = ["alt", [operand() for _ in range(rng.randint(2, 3))]]
            else:
                e = [k, tseq(progress=True)]
            rules[f"t{i}"] = {"mod": "", "ast": e, "terms": True}
            if k == "plus":
                consuming.add(f"t{i}")

    gad_at = rng.randrange(n_rules) if rng.random() < 0.35 else None
    if trivia is None and rng.random() < 0.6:
        terminal_rules()
    for i in range(n_rules):
        if i == gad_at:
            cycle_gadget()
        e = normal_form() if rng.random() < p_nf else expr(rng.randint(1, 3))
        mod = rng.choices(("", "_", "@", "$", "!"), (7, 2, 1, 0.5, 0.5))[0]
        name = f"c{i}"
        rules[name] = {"mod": mod, "ast": e}
        if is_consuming(e):
            consuming.add(name)
    return {"rules": rules, "trivia": trivia}


def operand_shape(o):
    """('ref', name) | ('seq', [names]) | ('rep', name, min) | None (not observable)."""
    if o[0] == "tag":
        return operand_shape(o[1])  # a tag changes nothing that is observed
    if o[0] in ("ref", "call"):
        return ("ref", o[1])
    if o[0] == "seq" and all(x[0] in ("ref", "call") or (x[0] == "tag" and x[1][0] in ("ref", "call")) for x in o[1]):
        return ("seq", [(x[1][1] if x[0] == "tag" else x[1]) for x in o[1]])
    if o[0] == "rep" and o[1][0] in ("ref", "call"):
        lo = {"exact": o[3], "min": o[3], "max": 0, "minmax": o[3]}[o[2]]
        hi = {"exact": o[3], "min": None, "max": o[4], "minmax": o[4]}[o[2]]
        return ("rep", o[1][1], lo, hi)
    return None


def operands(ast):
    """Operand shapes if `ast` is in normal form (every operand observable), else None."""
    k = ast[0]
    if k in ("seq", "alt"):
        ops = ast[1]
    elif k in ("opt", "star", "plus", "and", "not", "pushx"):
        ops = [ast[1]]
    elif k == "rep":
        ops = [ast[1]]
    else:
        return None
    shapes = [operand_shape(o) for o in ops]
    if any(sh is None for sh in shapes):
        return None
    if k in ("seq", "pushx") and any(sh[0] != "ref" for sh in shapes):
        return None
    if k == "rep" and shapes[0][0] == "rep":
        return None  # a bounded repetition of a bounded repetition: iterations cannot be told apart
    return shapes


def consume_operand(shape, ch, i):
    """Read one evaluation of an operand off the child-call list, starting at index i.

    Returns (next index, result, stack entries when the evaluation started) where result is
    True / False / None (cannot be told from what the implementation reported), or None if
    the children do not fit the shape at all.  Only definitional deductions are made: a
    sequence one of whose elements returned False failed; a repetition with fewer successful
    iterations than its minimum failed."""
    if i >= len(ch):
        return None
    if shape[0] == "ref":
        c = ch[i]
        if c["rule"] != shape[1]:
            return None
        return i + 1, bool(c["res"]), c["pre"]
    if shape[0] == "seq":
        start = ch[i]["pre"]
        for name in shape[1]:
            if i >= len(ch) or ch[i]["rule"] != name:
                return None
            ok = ch[i]["res"]
            i += 1
            if not ok:
                return i, False, start
        return i, True, start
    # bounded repetition of one named rule
    _, name, lo, hi = shape
    start = ch[i]["pre"]
    if ch[i]["rule"] != name:
        return None
    good = 0
    while i < len(ch) and ch[i]["rule"] == name:
        ok = ch[i]["res"]
        i += 1
        if not ok:
            break
        good += 1
        if hi is not None and good >= hi:
            break
    return i, (False if good < lo else None), start


INLINE_OK = tuple(n for n in ATOMS if not n.startswith("i_") and n not in ("a_push_c", "a_push_p"))


def render_operand(e) -> str:
    """Operand of a postfix/prefix operator: a leaf is written bare (so that `&POP`, `POP?`
    really put the terminal directly under the operator), anything else is parenthesised."""
    if e[0] in ("ref", "call", "inl"):
        return render_expr(e)
    if e[0] == "tag":
        return "(" + render_expr(e) + ")"
    r = render_expr(e)
    return r if r.startswith("(") and r.endswith(")") and e[0] in ("seq", "alt") else "(" + r + ")"


def render_expr(e) -> str:
    k = e[0]
    if k in ("ref", "call"):
        return e[1]
    if k == "inl":
        return ATOMS[e[1]][0]  # the stack operation / literal written inline, no rule around it
    if k == "tag":
        # a node tag: no effect on matching or on the stack, another code path in Identifier /
        # Group / the stack terminals (with state.tag(...))
        inner = e[1]
        if inner[0] == "inl" and ATOMS[inner[1]][1][0] in ("lit", "until", "choice"):
            return "#tt = (" + render_expr(inner) + ")"  # string literals carry no tag themselves
        return "#tt = " + render_operand(inner)
    if k == "seq":
        return "(" + " ~ ".join(render_expr(x) for x in e[1]) + ")"
    if k == "alt":
        return "(" + " | ".join(render_expr(x) for x in e[1]) + ")"
    if k == "opt":
        return render_operand(e[1]) + "?"
    if k == "star":
        return render_operand(e[1]) + "*"
    if k == "plus":
        return render_operand(e[1]) + "+"
    if k == "and":
        return "(&" + render_operand(e[1]) + ")"
    if k == "not":
        return "(!" + render_operand(e[1]) + ")"
    if k == "pushx":
        return "PUSH(" + render_expr(e[1]) + ")"
    if k == "rep":
        _, body, rk, m, n = e
        suffix = {"exact": f"{{{m}}}", "min": f"{{{m},}}", "max": f"{{,{n}}}", "minmax": f"{{{m},{n}}}"}[rk]
        return render_operand(body) + suffix
    raise ValueError(e)


TRIVIA_RULES = {
    "ws": ['WHITESPACE = _{ " " }'],
    "comment": ['COMMENT = _{ "#" }'],
    "both": ['WHITESPACE = _{ " " }', 'COMMENT = _{ "#" }'],
    "ws_nonsilent": ['WHITESPACE = { " " }'],
    # implicit rules that USE the stack: a comment attempt pushes before it can fail (and is
    # balanced when it matches), so every trivia skip where no comment follows is a failed
    # repetition iteration with a stack change inside it
    "comment_stack": ['COMMENT = _{ PUSH_LITERAL("c") ~ "#" ~ DROP }'],
    "both_stack": ['WHITESPACE = _{ " " }', 'COMMENT = _{ PUSH_LITERAL("c") ~ "#" ~ DROP }'],
    "ws_stack": ['WHITESPACE = _{ PUSH_LITERAL("w") ~ " " ~ DROP }'],
    # UNBALANCED: every blank skipped stays on the stack.  Contrived, but well-formed; the
    # only clause that is about it asks for consistency -- an implementation that gives back
    # the POSITION of trivia skipped before a failed repetition iteration must give back its
    # stack change too
    "ws_push": ['WHITESPACE = _{ PUSH(" ") }'],
}
UNBALANCED_TRIVIA = ("ws_push",)


def render_grammar(tb: dict) -> str:
    lines = list(TRIVIA_RULES.get(tb.get("trivia") or "", []))
    lines += [f"{name} = {{ {src} }}" for name, (src, _) in ATOMS.items()]
    for name, r in tb["rules"].items():
        lines.append(f"{name} = {r['mod']}{{ {render_expr(r['ast'])} }}")
    return "\n".join(lines) + "\n"


# ============================================= instrumentation (harness side, no hooks)


class WallCap(BaseException):
    """Raised by the SIGALRM handler when one (history, mode) execution exceeds its wall
    cap: a hang of the code under test is a totality matter (C07), not a C05 verdict."""


def _on_alarm(signum, frame):
    raise WallCap


class Found(Exception):
    """Raised by the harness (never by pest) to stop a history at its first violation."""

    def __init__(self, clause, detail):
        super().__init__(clause)
        self.clause = clause
        self.detail = detail


class SerialStr(str):
    """A stack entry: behaves as the `str` it is, plus the serial of the push that made it."""

    __slots__ = ("serial",)


def make_shadow_classes():
    from pest.stack import Stack  # noqa: PLC0415
    from pest.state import ParserState  # noqa: PLC0415

    class ShadowStack(Stack):
        """The user stack whose entries carry a unique serial (a `str` subclass instance
        per push), so every visible entry is attributable to one push.  Only `push` is
        overridden and only public iteration is read: the harness must survive any
        re-implementation of the snapshot encoding (a mirror stack driven through
        overridden methods would be corrupted by an implementation whose `restore` or
        `clear` calls its own `push`/`pop`)."""

        def __init__(self, sim):
            super().__init__()
            self.sim = sim

        def push(self, item):
            if not isinstance(item, SerialStr):  # an entry put back by the stack itself keeps its serial
                self.sim.serial += 1
                item = SerialStr(item)
                item.serial = self.sim.serial
            super().push(item)

        def entries(self):
            items = list(self)
            if any(not isinstance(x, SerialStr) for x in items):
                return None  # entries copied or pushed behind `push`: abstain
            return [(x.serial, str(x)) for x in items]

    class ShadowState(ParserState):
        """ParserState whose checkpoint() also stores a FULL COPY of the user stack and
        whose restore() compares the result with it (bracket shadow, O3)."""

        def __init__(self, text, pos, parser, sim):
            super().__init__(text, pos, parser)
            self.user_stack = ShadowStack(sim)
            self.sim = sim
            self.shadow: list[list] = []  # [copy, commits_inside]

        def checkpoint(self):
            self.shadow.append([list(self.user_stack), self.pos, 0])
            super().checkpoint()

        def ok(self):
            super().ok()
            if self.shadow:
                c = self.shadow.pop()
                if self.shadow:
                    self.shadow[-1][2] += 1 + c[2]

        def restore(self):
            before = list(self.user_stack)
            super().restore()
            if not self.shadow:
                return
            copy, pos, commits = self.shadow.pop()
            now = list(self.user_stack)
            self.sim.restores += 1
            if before != copy:
                self.sim.effective_restores += 1
                if commits:
                    self.sim.restores_across_commit += 1
            if now != copy:
                self.sim.pending.append(("restore-inexact", {"stack_after_restore": now, "stack_at_checkpoint": copy, "stack_before_restore": before}))
            elif self.pos != pos:
                self.sim.pending.append(("restore-position-inexact", {"pos_after_restore": self.pos, "pos_at_checkpoint": pos}))

    return ShadowStack, ShadowState


class Sim:
    """Per-history mutable bookkeeping shared by taps and shadow."""

    def __init__(self):
        self.serial = 0
        self.calls: list[dict] = []  # top-level call records of the current step
        self.call_stack: list[dict] = []
        self.pending: list[tuple] = []
        self.current_atom: str | None = None
        self.restores = 0
        self.effective_restores = 0
        self.restores_across_commit = 0


class Tap:
    """Transparent proxy for a rule (interpreter: entry of parser.rules; generated: the
    module global parse_<rule>).  Records the implementation's own call tree: for every
    rule application its pre/post position and stack entries, result and child calls."""

    def __init__(self, name, target, holder):
        self._name = name
        self._target = target
        self._holder = holder  # dict with "sim"
        self._is_atom = name in ATOMS

    def __getattr__(self, attr):
        return getattr(self._target, attr)

    def _record(self, fn, state, pairs):
        sim: Sim = self._holder["sim"]
        us = state.user_stack
        rec = {"rule": self._name, "pre_pos": state.pos, "pre": us.entries() if hasattr(us, "entries") else None, "depth": len(getattr(state, "shadow", ())), "children": []}
        (sim.call_stack[-1]["children"] if sim.call_stack else sim.calls).append(rec)
        sim.call_stack.append(rec)
        if self._is_atom:
            sim.current_atom = self._name
        res = fn(state, pairs)
        if self._is_atom:
            sim.current_atom = None
        sim.call_stack.pop()
        rec["res"] = res
        rec["post_pos"] = state.pos
        rec["post"] = us.entries() if hasattr(us, "entries") else None
        return res

    def parse(self, state, pairs):  # interpreter entry
        return self._record(self._target.parse, state, pairs)

    def __call__(self, state, pairs):  # generated entry
        return self._record(self._target, state, pairs)


class Mode:
    def __init__(self, name, grammar_text, optimized, generated, rule_names):
        from pest import Parser  # noqa: PLC0415
        from pest.grammar.optimizer import DEFAULT_OPTIMIZER_PASSES, Optimizer  # noqa: PLC0415

        self.name = name
        self.generated = generated
        self.holder: dict = {"sim": None}
        opt = Optimizer(list(DEFAULT_OPTIMIZER_PASSES)) if optimized else None
        self.parser = Parser.from_grammar(grammar_text, optimizer=opt)
        if generated:
            src = self.parser.generate()
            self.module = types.ModuleType("toolbox_" + name.replace(" ", "_"))
            exec(compile(src, f"<gen:{name}>", "exec"), self.module.__dict__)  # noqa: S102
            for a in rule_names:
                self.module.__dict__["parse_" + a] = Tap(a, self.module.__dict__["parse_" + a], self.holder)
        else:
            for a in rule_names:
                self.parser.rules[a] = Tap(a, self.parser.rules[a], self.holder)

    def call(self, rule, state, pairs):
        if self.generated:
            return self.module.__dict__["parse_" + rule](state, pairs)
        return self.parser.rules[rule].parse(state, pairs)


MODES = (("interpreter", False, False), ("optimized interpreter", True, False), ("generated", False, True), ("optimized generated", True, True))


def impl_of(mode_name: str) -> str:
    return "generated" if "generated" in mode_name else "interpreter"


# ================================================================= executing a history


def check_event_O1(ev, text, trivia=None):
    """Exact primitive transition (trusts nothing but str.startswith / slicing).

    With implicit trivia defined, what PEEK_ALL / POP_ALL and the PEEK idioms consume between
    entries / iterations is not specified by the statement: only their unconditional clauses
    (a failure changes nothing, nothing raises, PEEK_ALL never changes the stack) are kept."""
    spec = ATOMS[ev["atom"]][1]
    kind = KIND[spec[0]]
    if ev["pre"] is None or ev["post"] is None:
        return None
    pre = [t for _, t in ev["pre"]]
    post = [t for _, t in ev["post"]]
    pre_ids = [s for s, _ in ev["pre"]]
    post_ids = [s for s, _ in ev["post"]]
    res = ev["res"]
    d = {"atom": ev["atom"], "pre_pos": ev["pre_pos"], "post_pos": ev["post_pos"], "pre_stack": pre, "post_stack": post, "result": res}
    if res is not True and res is not False:
        return (kind, "non-boolean-result", d)
    if trivia in UNBALANCED_TRIVIA:
        # operations that skip implicit trivia INSIDE themselves (this port's PEEK_ALL / POP_ALL,
        # the idioms, PUSH(e) with a repetition in e) legitimately change the stack through it;
        # nothing about them is specified then.  The operations that skip none keep every clause.
        if spec[0] in ("peek_all", "pop_all", "until", "choice"):
            return None
        if spec[0] == "push":
            if res and (post[: len(pre)] != pre or not post[len(pre) :] or post[-1] != text[ev["pre_pos"] : ev["post_pos"]]):
                return (kind, "pushed-text-is-not-the-matched-text", d)
            return None
    if not res:
        if post != pre or post_ids != pre_ids:
            return (kind, "stack-changed-on-failure", d)
        if ev["post_pos"] != ev["pre_pos"]:
            return (kind, "position-moved-on-failure", d)
    if spec[0] == "lit":
        if post != pre or post_ids != pre_ids:
            return (kind, "literal-changed-stack", d)
        return None
    exp_res, exp_pos, exp_stack, specified = spec_apply(spec, text, ev["pre_pos"], pre)
    if trivia and spec[0] in ("peek_all", "pop_all", "until"):
        specified = False
        if res and spec[0] == "pop_all" and post:
            return (kind, "wrong-stack-on-success", d)
        if res and spec[0] != "pop_all" and (post != pre or post_ids != pre_ids):
            return (kind, "wrong-stack-on-success", d)
        return None
    if spec[0] == "push":
        # "PUSH(e) pushes exactly the text e matched": whatever e matched, that text
        if res:
            if post != pre + [text[ev["pre_pos"] : ev["post_pos"]]] or post_ids[: len(pre_ids)] != pre_ids:
                return (kind, "pushed-text-is-not-the-matched-text", d)
        return None
    if not specified:
        if res and (post != pre or post_ids != pre_ids):
            return (kind, "slice-changed-stack", d)
        return None
    if res != exp_res:
        d["expected_result"] = exp_res
        return (kind, "wrong-result", d)
    if res:
        if post != exp_stack:
            d["expected_stack"] = exp_stack
            return (kind, "wrong-stack-on-success", d)
        # entries that stay must be the very same entries
        keep = min(len(pre_ids), len(post_ids))
        if spec[0] != "pushl" and post_ids[:keep] != pre_ids[:keep]:
            return (kind, "stack-entries-replaced-on-success", d)
        if ev["post_pos"] != exp_pos:
            d["expected_pos"] = exp_pos
            return (kind, "wrong-position-on-success", d)
    return None


def flatten_calls(calls, out=None):
    out = [] if out is None else out
    for c in calls:
        out.append(c)
        flatten_calls(c["children"], out)
    return out


def eval_terms(e, text, pos, stack):
    """Terminal-only expression (inline terminals under ~ and |): (matched, pos, stack,
    specified) by the terminals' specified transitions and the definitions of ~ and |."""
    k = e[0]
    if k == "inl":
        return spec_apply(ATOMS[e[1]][1], text, pos, stack)
    if k == "seq":
        p, st, spec = pos, stack, True
        for x in e[1]:
            ok, p, st, sp = eval_terms(x, text, p, st)
            spec = spec and sp
            if not ok:
                return False, pos, stack, spec
        return True, p, st, spec
    if k == "alt":
        spec = True
        for x in e[1]:
            ok, p, st, sp = eval_terms(x, text, pos, stack)
            spec = spec and sp
            if ok:
                return True, p, st, spec
        return False, pos, stack, spec
    raise ValueError(e)


def check_terms_O6(rec, ast, text, stats):
    """O6 -- an operator whose operand is made of terminals only.  Whether the operand matches
    is fixed by C05's own clauses for its terminals.  Asserted, deliberately one-sided so that
    a control-flow deviation (C03) is skipped rather than reported: when the operand FAILS by
    the specification, the rule returns with exactly the entries it was entered with; when the
    rule succeeded AND stopped where the specification stops, it returns with the specified
    stack."""
    pre = [t for _, t in rec["pre"]]
    post = [t for _, t in rec["post"]]
    k = ast[0]
    d = {"rule": rec["rule"], "body": render_expr(ast), "stack_before": pre, "stack_after": post, "pos_before": rec["pre_pos"], "pos_after": rec["post_pos"], "result": rec["res"]}
    if k == "opt":
        ok, p, st, spec = eval_terms(ast[1], text, rec["pre_pos"], pre)
        if not spec:
            return None
        stats["terminal_operand_rules_checked"] += 1
        if not ok:
            if rec["post"] != rec["pre"]:
                return ("operator", "stack-changes-kept-after-failed-optional", d)
        elif rec["res"] and rec["post_pos"] == p and post != st:
            d["expected_stack"] = st
            return ("operator", "wrong-stack-after-optional-over-terminals", d)
        return None
    if k == "alt":
        ok, p, st, spec = eval_terms(ast, text, rec["pre_pos"], pre)
        if not spec:
            return None
        stats["terminal_operand_rules_checked"] += 1
        if ok and rec["res"] and rec["post_pos"] == p and post != st:
            d["expected_stack"] = st
            return ("operator", "stack-changes-kept-after-failed-alternative", d)
        return None
    if k in ("star", "plus"):
        p, st = rec["pre_pos"], pre
        n = 0
        while n < 64:
            ok, p2, st2, spec = eval_terms(ast[1], text, p, st)
            if not spec:
                return None
            if not ok or p2 == p:
                break
            p, st, n = p2, st2, n + 1
        stats["terminal_operand_rules_checked"] += 1
        if rec["res"] and rec["post_pos"] == p and post != st:
            d["expected_stack"] = st
            d["iterations_by_the_specification"] = n
            return ("operator", "stack-changes-kept-after-failed-repetition-iteration", d)
        return None
    return None


def check_structure_O4(rec, tb, text, stats):
    """The backtracking clause, judged on the implementation's own call tree.

    * a rule whose body is a predicate returns with exactly the stack it was entered with,
      whatever the result and whatever the operand (named, inline, nested);
    * for a composite rule in normal form the direct child calls ARE the operand
      evaluations (see consume_operand), with their results as the implementation itself
      computed them: an operand evaluation that FAILED (a failed optional body, alternative
      or repetition iteration) must have left the stack, at the next observation point (the
      next child call, or the return of the rule if the rule itself succeeded), exactly as
      it was when that evaluation started;
    * PUSH(x): when x matched and the rule succeeded, the stack is x's stack plus the text
      between the rule's start and x's end.
    If the observed children do not fit the operand shapes (an operand was inlined by the
    optimizer, a mirror was lost) the node is skipped and counted.  Returns a violation
    tuple (where, clause, detail) or None."""
    name = rec["rule"]
    if name not in tb["rules"] or rec.get("post") is None or rec.get("pre") is None:
        return None
    ast = tb["rules"][name]["ast"]
    while ast[0] == "tag":
        ast = ast[1]
    k = ast[0]
    if tb["rules"][name].get("terms") and not tb.get("trivia"):
        return check_terms_O6(rec, ast, text, stats)

    def texts(entries):
        return [t for _, t in entries]

    if k in ("and", "not"):
        stats["structure_checked"] += 1
        if rec["post"] != rec["pre"]:
            return ("predicate", "predicate-changed-stack", {"rule": name, "body": render_expr(ast), "before": texts(rec["pre"]), "after": texts(rec["post"]), "result": rec["res"]})
        return None
    shapes = operands(ast)
    if shapes is None:
        return None
    ch = rec["children"]
    if k == "seq" and tb.get("trivia") in UNBALANCED_TRIVIA:
        return None
    if k == "seq":
        # CONTINUITY: in a rule that is a plain sequence of rule references nothing but those
        # rules (and implicit trivia between them) runs.  Trivia skipping is `(WHITESPACE |
        # COMMENT)*`; whether an attempt matches (balanced by construction in the toolbox) or
        # fails (must be undone), it leaves the stack as it found it -- so the stack handed
        # from one element to the next, into the first and out of the last, is unchanged.
        if any(c.get("pre") is None or c.get("post") is None or "res" not in c for c in ch) or [c["rule"] for c in ch] != [sh[1] for sh in shapes][: len(ch)] or not ch:
            stats["structure_skipped"] += 1
            return None
        stats["structure_checked"] += 1
        pts = [("rule entry", rec["pre"], ch[0]["pre"])]
        for a_, b_ in zip(ch, ch[1:]):
            if not a_["res"]:
                break
            pts.append((f"between {a_['rule']} and {b_['rule']}", a_["post"], b_["pre"]))
        if rec["res"] and len(ch) == len(shapes) and all(c["res"] for c in ch):
            pts.append(("rule return", ch[-1]["post"], rec["post"]))
        for where, x, y in pts:
            if x != y:
                return ("trivia", "stack-changed-between-sequence-elements", {"rule": name, "body": render_expr(ast), "where": where, "before": texts(x), "after": texts(y), "trivia": tb.get("trivia")})
        return None
    if any(c.get("pre") is None or c.get("post") is None or "res" not in c for c in ch):
        stats["structure_skipped"] += 1
        return None
    if k == "pushx":
        if len(ch) != 1 or ch[0]["rule"] != shapes[0][1]:
            stats["structure_skipped"] += 1
            return None
        stats["structure_checked"] += 1
        x = ch[0]
        if x["res"] and rec["res"] and not tb.get("trivia"):
            want = texts(x["post"]) + [text[rec["pre_pos"] : x["post_pos"]]]
            if texts(rec["post"]) != want or [s for s, _ in rec["post"]][:-1] != [s for s, _ in x["post"]]:
                return ("PUSH", "pushed-text-is-not-the-matched-text", {"rule": name, "body": render_expr(ast), "stack_after": texts(rec["post"]), "expected": want})
        return None
    # ---- read the operand evaluations off the child list
    evals = []  # (result, start entries, index of the first child after the evaluation)
    i = 0
    if k == "alt":
        for sh in shapes:
            if i >= len(ch):
                break
            r = consume_operand(sh, ch, i)
            if r is None:
                stats["structure_skipped"] += 1
                return None
            j0 = i
            i, res, start = r
            evals.append((res, start, i, j0))
            if res is not False:
                break
    elif k == "opt":
        r = consume_operand(shapes[0], ch, 0) if ch else None
        if r is None:
            stats["structure_skipped"] += 1
            return None
        i, res, start = r
        evals.append((res, start, i, 0))
    else:  # star plus rep: iterations of one operand
        while i < len(ch):
            r = consume_operand(shapes[0], ch, i)
            if r is None:
                stats["structure_skipped"] += 1
                return None
            j0 = i
            i, res, start = r
            evals.append((res, start, i, j0))
    if i != len(ch):
        stats["structure_skipped"] += 1
        return None
    if k == "alt" and rec["res"] and all(e[0] is False for e in evals):
        # the rule succeeded although every alternative we saw failed: the alternative that
        # matched left no call record (a silent rule inlined by the optimizer), so the
        # rule's return is not an observation point for the ones before it
        stats["structure_skipped"] += 1
        return None
    stats["structure_checked"] += 1
    construct = {"alt": "alternative", "opt": "optional"}.get(k, "repetition-iteration")
    unbalanced = tb.get("trivia") in UNBALANCED_TRIVIA
    if unbalanced and k == "rep":
        # e{..} is its unrolled sequence: the trivia between two of its elements is sequence
        # trivia and stays, whatever the element before it did
        return None
    for res, start, nxt_i, first_i in evals:
        if res is not False:
            continue
        if nxt_i < len(ch):
            nxt, nxt_pos, where = ch[nxt_i]["pre"], ch[nxt_i]["pre_pos"], "next operand"
        elif rec["res"]:
            nxt, nxt_pos, where = rec["post"], rec["post_pos"], "rule return"
        else:
            # the rule as a whole failed after this operand: whatever encloses the rule rolls
            # back further, the stack at the rule's return is not an observation point
            continue
        stats["failed_operands_checked"] += 1
        if ch[nxt_i - 1]["post"] != start:
            stats["probe_failed_operand_had_changed_stack"] += 1
        if unbalanced and k not in ("alt", "opt"):
            # implicit trivia skipped between the previous iteration and this one changed the
            # stack legitimately.  pest counts it into the failed iteration (all of it undone);
            # an implementation may also keep all of it.  What it may not do is give back the
            # trivia's position and keep its stack change, or the other way round.
            prev, prev_pos = (ch[first_i - 1]["post"], ch[first_i - 1]["post_pos"]) if first_i > 0 else (rec["pre"], rec["pre_pos"])
            start_pos = ch[first_i]["pre_pos"]
            kept = nxt == start and nxt_pos == start_pos
            undone = nxt == prev and nxt_pos == prev_pos
            if kept or undone or (prev == start and nxt == start):
                continue
            return ("trivia", "position-and-stack-of-trivia-before-a-failed-iteration-disagree", {"rule": name, "body": render_expr(ast), "before_trivia": [prev_pos, texts(prev)], "iteration_started_at": [start_pos, texts(start)], "after_the_failed_iteration": [nxt_pos, texts(nxt)], "observed_at": where})
        if nxt != start:
            return ("operator", f"stack-changes-kept-after-failed-{construct}", {"rule": name, "body": render_expr(ast), "stack_when_it_started": texts(start), "stack_at_next_observation": texts(nxt), "observed_at": where})
    return None


class HistoryRunner:
    def __init__(self, tb, modes, shadow_state_cls):
        self.tb = tb
        self.modes = modes
        self.ShadowState = shadow_state_cls

    def run(self, mode: Mode, text: str, steps: list, stats: dict):
        """Execute one history in one mode. Returns violation tuple or None."""
        sim = Sim()
        mode.holder["sim"] = sim
        state = self.ShadowState(text, 0, None if mode.generated else mode.parser, sim)
        open_brackets = 0
        impl = impl_of(mode.name)
        for si, step in enumerate(steps):
            op = step[0]
            try:
                if op == "seek":
                    state.pos = min(step[1], len(text))
                    continue
                if op == "atomic":
                    # the environment is inside an atomic rule (or leaves it again): no implicit
                    # trivia, and whatever else an implementation does differently there
                    if step[1]:
                        state.atomic_depth += 1
                    else:
                        state.atomic_depth.zero()
                    continue
                if op in ("commit", "fail"):
                    if open_brackets == 0:
                        continue
                    open_brackets -= 1
                    if op == "commit":
                        state.ok()
                        stats["injected_commit"] += 1
                    else:
                        state.restore()
                        stats["injected_fail"] += 1
                        if sim.pending:
                            clause, detail = sim.pending[0]
                            return (impl, "SIMULATOR-ROLLBACK", clause, si, detail)
                    continue
                # ---- call(rule): made the way an enclosing construct would make it
                rule = step[1]
                if rule not in ATOMS and rule not in self.tb["rules"]:
                    continue
                pre_entries = state.user_stack.entries()
                pre_pos = state.pos
                sim.calls = []
                sim.call_stack = []
                state.checkpoint()
                pairs: list = []
                res = mode.call(rule, state, pairs)
                stats["calls"] += 1
                # O3 (the implementation's own restores)
                if sim.pending:
                    clause, detail = sim.pending[0]
                    return (impl, self.kind_of(rule), clause, si, detail)
                for rec in flatten_calls(sim.calls):
                    if rec["rule"] in ATOMS:
                        # O1 on every primitive event
                        stats["events"] += 1
                        spec = ATOMS[rec["rule"]][1]
                        if rec["pre"] is not None:
                            dkey = (KIND[spec[0]], min(len(rec["pre"]), 2), min(rec["depth"] - 1, 2), bool(rec["res"]))
                            stats["set_transitions"].add(dkey)
                            if spec[0] in ("peek_all", "pop_all") and not rec["res"] and len(rec["pre"]) >= 2:
                                pre_t = [t for _, t in rec["pre"]]
                                if pre_t[-1] and text.startswith(pre_t[-1], rec["pre_pos"]):
                                    stats["probe_all_failed_midway"] += 1
                            if not rec["pre"]:
                                stats["probe_op_on_empty_stack"] += 1
                        bad = check_event_O1({"atom": rec["rule"], **rec}, text, self.tb.get("trivia"))
                        if bad:
                            return (impl, bad[0], bad[1], si, bad[2])
                    else:
                        # O4/O5 on the implementation's own call tree
                        bad = check_structure_O4(rec, self.tb, text, stats)
                        if bad:
                            return (impl, bad[0], bad[1], si, bad[2])
                if res:
                    open_brackets += 1  # bracket stays open: the enclosing construct is still undecided
                    if open_brackets > 6:
                        state.ok()
                        open_brackets -= 1
                else:
                    state.restore()
                    stats["call_failed_restored"] += 1
                    if sim.pending:
                        clause, detail = sim.pending[0]
                        return (impl, self.kind_of(rule), clause, si, detail)
                    now = state.user_stack.entries()
                    if now != pre_entries or state.pos != pre_pos:
                        return (impl, self.kind_of(rule), "state-not-restored-after-failed-call", si, {"before": [pre_pos, pre_entries], "after": [state.pos, now]})
            except BaseException as e:  # noqa: BLE001 - O2: nothing may escape, whatever it is
                if isinstance(e, (KeyboardInterrupt, SystemExit, MemoryError, WallCap)):
                    raise
                if isinstance(e, RecursionError) and "kg" in self.tb["rules"]:
                    # a toolbox with the recursive gadget nests as deep as its input makes it: running
                    # out of frames there is the ordinary limit of recursive descent (C07 excludes
                    # it by name), not an operation that raised.  Counted, not judged.  Toolboxes
                    # without recursion keep the clause: there a RecursionError is a defect.
                    stats["recursion_limit_reached"] = stats.get("recursion_limit_reached", 0) + 1
                    return None
                where = KIND[ATOMS[sim.current_atom][1][0]] if sim.current_atom else (self.kind_of(step[1]) if op == "call" else op)
                import traceback  # noqa: PLC0415

                tb_last = traceback.extract_tb(e.__traceback__)[-1]
                return (impl, where, f"raises-{type(e).__name__}", si, {"exception": repr(e), "at": f"{tb_last.filename.split('/')[-1]}:{tb_last.name}", "stack": [t for _, t in (state.user_stack.entries() or [])], "pos": state.pos})
        stats["restores_seen"] += sim.restores
        stats["effective_restores"] += sim.effective_restores
        if sim.restores_across_commit:
            stats["nontrivial_flag"] = True
        return None

    def kind_of(self, rule):
        if rule in ATOMS:
            return KIND[ATOMS[rule][1][0]]
        return "composite"


# ------------------------------------------------------------------ history generator


def gen_history(rng: random.Random, tb: dict):
    n = rng.choice((rng.randint(1, 6), rng.randint(4, 16), rng.randint(10, 30)))
    tl = rng.choice((rng.randint(0, 4), rng.randint(2, 8), rng.randint(4, 12)))
    style = rng.random()
    if style < 0.4:
        text = "".join(rng.choice("ab") for _ in range(tl))
    elif style < 0.8:
        text = "".join(rng.choice(("a", "b", "ab", "ab", "aa", "ba")) for _ in range(max(1, tl // 2)))
    else:
        text = rng.choice(("a", "b", "ab")) * max(1, tl // 2)
    if rng.random() < 0.25 and text:
        text = "".join(ch.upper() if rng.random() < 0.4 else ch for ch in text)
    if rng.random() < 0.12 and text:
        # non-ASCII and astral characters (offsets are code points, not bytes or UTF-16 units)
        text = "".join(rng.choice("\u00e9\U0001d4b3\u0131") if rng.random() < 0.2 else ch for ch in text)
    if tb.get("trivia") and text:
        # sprinkle implicit-trivia characters
        chars = {"ws": " ", "ws_nonsilent": " ", "comment": "#", "both": " #", "comment_stack": "#", "both_stack": " #", "ws_stack": " ", "ws_push": " "}[tb["trivia"]]
        out = []
        for ch in text:
            out.append(ch)
            if rng.random() < 0.3:
                out.append(rng.choice(chars))
        text = "".join(out)
    comps = list(tb["rules"])
    atoms = list(ATOMS)
    w_comp = rng.choice((0.3, 0.6, 0.8))
    steps = []
    if rng.random() < 0.05:
        # DEEP: dozens of entries on the stack (most of them short, so that POP / PEEK_ALL /
        # DROP* runs go a long way down) over a long periodic text -- whatever an implementation
        # does differently beyond a size (a fast path for small stacks, records trimmed or
        # compacted past a length) is out of reach of histories that never hold five entries
        if not tb.get("trivia") and "kg" not in tb["rules"]:
            # (not over the recursive gadget: its nesting depth and its backtracking grow with
            # the length of the text -- RecursionError and exponential time are no C05 matter)
            text = rng.choice(("a", "b", "ab", "ba", "aab")) * rng.randint(8, 30)
        for _ in range(rng.choice((12, 20, 40, 70, 130))):
            if rng.random() < 0.2:
                steps.append(["seek", rng.randint(0, len(text))])
            steps.append(["call", rng.choice(("a_pushl_e", "a_pushl_b", "a_push_e", "a_push_a", "a_push_b", "a_pushl_ab", "a_push_r"))])
            if rng.random() < 0.8:
                steps.append(["commit"])
        steps.append(["seek", rng.randint(0, len(text))])
    # prologue: most histories start with a few entries on the stack, some of them durable
    # (committed), some still inside an open bracket that a later `fail` can roll back
    if rng.random() < 0.7:
        for _ in range(rng.randint(1, 4)):
            if rng.random() < 0.5:
                steps.append(["seek", rng.randint(0, len(text))])
            steps.append(["call", rng.choice(PUSHES + ("a_pushl_b", "a_pushl_ab", "a_pushl_e"))])
            if rng.random() < 0.5:
                steps.append(["commit"])
        if rng.random() < 0.5:
            steps.append(["seek", rng.randint(0, len(text))])
    p_atomic = rng.choice((0.0, 0.0, 0.0, 0.04))
    if rng.random() < 0.15:
        steps.insert(rng.randrange(len(steps) + 1), ["atomic", 1])
        p_atomic = rng.choice((0.0, 0.03))
    for _ in range(n):
        r = rng.random()
        if p_atomic and rng.random() < p_atomic:
            steps.append(["atomic", rng.choice((0, 1))])
        if r < 0.12:
            steps.append(["seek", rng.randint(0, max(0, len(text)))])
        elif r < 0.22:
            steps.append(["fail"])
        elif r < 0.30:
            steps.append(["commit"])
        elif rng.random() < w_comp and comps:
            steps.append(["call", rng.choice(comps)])
        else:
            # bias atoms towards pushes early so that there is something on the stack
            if rng.random() < 0.35:
                steps.append(["call", rng.choice(PUSHES + ("a_pushl_b", "a_pushl_ab"))])
            else:
                steps.append(["call", rng.choice(atoms)])
    # close a seeded part of what is still open
    for _ in range(rng.randint(0, 3)):
        steps.append([rng.choice(("fail", "fail", "commit"))])
    return text, steps


# --------------------------------------------------------------------------- the check

STAT_KEYS = ("terminal_operand_rules_checked", "calls", "events", "injected_commit", "injected_fail", "call_failed_restored", "restores_seen", "effective_restores", "structure_checked", "structure_skipped", "failed_operands_checked", "probe_failed_operand_had_changed_stack", "probe_all_failed_midway", "probe_op_on_empty_stack")


def new_stats():
    st = {k: 0 for k in STAT_KEYS}
    st["sample_hangs"] = []
    st["set_transitions"] = set()
    st["nontrivial_flag"] = False
    return st


def build_modes(grammar_text, tb):
    names = list(ATOMS) + list(tb["rules"])
    return [Mode(n, grammar_text, o, g, names) for n, o, g in MODES]


def make_violation(v, tb, text, steps, mode_name, extra=None):
    impl, where, clause, step_index, detail = v
    plan = {"property": "C05", "toolbox": tb, "text": text, "steps": steps, "mode": mode_name}
    return {
        "signature": f"C05/{impl}/{where}/{clause}",
        "step": step_index,
        "op": steps[step_index] if step_index is not None and step_index < len(steps) else None,
        "detail": {"mode": mode_name, **(detail if isinstance(detail, dict) else {"detail": detail})},
        "plan": plan,
    }


def run_capped(runner, mode, text, steps, stats, cap_s=5.0):
    import signal  # noqa: PLC0415

    signal.signal(signal.SIGALRM, _on_alarm)
    signal.setitimer(signal.ITIMER_REAL, cap_s)
    try:
        return runner.run(mode, text, steps, stats)
    except WallCap:
        stats["hangs"] = stats.get("hangs", 0) + 1
        if len(stats["sample_hangs"]) < 2:
            stats["sample_hangs"].append({"mode": mode.name, "text": text, "steps": steps, "rules": {s[1]: render_expr(runner.tb["rules"][s[1]]["ast"]) for s in steps if s[0] == "call" and s[1] in runner.tb["rules"]}})
        return None
    finally:
        signal.setitimer(signal.ITIMER_REAL, 0)


def run_batch(job) -> dict:
    import gc  # noqa: PLC0415

    gc.disable()
    rng = random.Random(job["seed"])
    _, ShadowState = make_shadow_classes()
    stats = new_stats()
    violations = []
    seen_sigs = set()
    distinct_nt: set[int] = set()
    samples = []
    n_hist = 0
    n_tb = 0
    import hashlib  # noqa: PLC0415

    log = hashlib.blake2b(digest_size=12)  # event-log digest: plans, verdicts and counters
    for _ in range(job["toolboxes"]):
        tb = gen_toolbox(rng)
        gtext = render_grammar(tb)
        modes = build_modes(gtext, tb)
        n_tb += 1
        log.update(gtext.encode())
        runner = HistoryRunner(tb, modes, ShadowState)
        for _ in range(job["histories"]):
            text, steps = gen_history(rng, tb)
            n_hist += 1
            nontrivial = False
            for mode in modes:
                stats["nontrivial_flag"] = False
                v = run_capped(runner, mode, text, steps, stats)
                stats["mode_runs"] = stats.get("mode_runs", 0) + 1
                if stats["nontrivial_flag"]:
                    nontrivial = True
                log.update(repr((mode.name, text, steps, v, stats["events"], stats["restores_seen"], stats["structure_checked"])).encode())
                if v is not None:
                    viol = make_violation(v, tb, text, steps, mode.name)
                    if viol["signature"] not in seen_sigs and len(violations) < 12:
                        seen_sigs.add(viol["signature"])
                        violations.append(viol)
                    stats["violating_mode_runs"] = stats.get("violating_mode_runs", 0) + 1
            if nontrivial:
                distinct_nt.add(common.derive_seed(gtext, text, steps) & 0xFFFFFFFFFFFF)
                if len(samples) < 1 and len(steps) <= 8:
                    samples.append({"text": text, "steps": [" ".join(map(str, s)) for s in steps], "rules": {s[1]: (render_expr(tb["rules"][s[1]]["ast"]) if s[1] in tb["rules"] else ATOMS[s[1]][0]) for s in steps if s[0] == "call"}})
    out = {k: stats[k] for k in STAT_KEYS}
    out.update(
        {
            "histories": n_hist,
            "toolboxes": n_tb,
            "mode_runs": stats.get("mode_runs", 0),
            "violating_mode_runs": stats.get("violating_mode_runs", 0),
            "hangs": stats.get("hangs", 0),
            "recursion_limit_reached": stats.get("recursion_limit_reached", 0),
            "sample_hangs": stats["sample_hangs"],
            "set_transitions": sorted(stats["set_transitions"]),
            "set_nontrivial": sorted(distinct_nt),
            "sample_histories": samples,
        }
    )
    return {"stats": out, "violations": violations, "digest": log.hexdigest()}


def run_plan_child(plan):
    """Replay one explicit plan (in its recorded mode; all four if none recorded)."""
    import gc  # noqa: PLC0415

    gc.disable()
    _, ShadowState = make_shadow_classes()
    tb = plan["toolbox"]
    gtext = render_grammar(tb)
    stats = new_stats()
    for n, o, g in MODES:
        if plan.get("mode") and plan["mode"] != n:
            continue
        mode = Mode(n, gtext, o, g, list(ATOMS) + list(tb["rules"]))
        runner = HistoryRunner(tb, [mode], ShadowState)
        v = run_capped(runner, mode, plan["text"], plan["steps"], stats)
        if v is not None:
            return make_violation(v, tb, plan["text"], plan["steps"], n)
    return None


# ----- Hypothesis stateful machine over a fixed toolbox (thorough) -----

FIXED_TOOLBOX = {
    "rules": {
        "s_pop_b": {"mod": "", "ast": ["seq", [["ref", "a_pop"], ["ref", "l_b"]]]},
        "s_pop_pop": {"mod": "", "ast": ["seq", [["ref", "a_pop"], ["ref", "a_pop"]]]},
        "s_push_pop": {"mod": "_", "ast": ["seq", [["ref", "a_push_a"], ["ref", "a_pop"], ["ref", "l_b"]]]},
        "s_a_pop": {"mod": "", "ast": ["seq", [["ref", "l_a"], ["ref", "a_pop"]]]},
        "o_pop_b": {"mod": "", "ast": ["opt", ["call", "s_pop_b"]]},
        "o_inner": {"mod": "", "ast": ["opt", ["ref", "a_pop"]]},
        "s_nest": {"mod": "", "ast": ["seq", [["ref", "a_pop"], ["call", "o_inner"], ["ref", "l_b"], ["ref", "l_b"]]]},
        "o_nest": {"mod": "", "ast": ["opt", ["call", "s_nest"]]},
        "alt3": {"mod": "", "ast": ["alt", [["call", "s_pop_b"], ["call", "s_push_pop"], ["ref", "a_peek"]]]},
        "not_pp": {"mod": "", "ast": ["not", ["call", "s_push_pop"]]},
        "and_pp": {"mod": "", "ast": ["and", ["call", "s_pop_pop"]]},
        "star_ap": {"mod": "", "ast": ["star", ["call", "s_a_pop"]]},
        "plus_ap": {"mod": "@", "ast": ["plus", ["call", "s_a_pop"]]},
        "rep_ap": {"mod": "", "ast": ["rep", ["call", "s_a_pop"], "minmax", 1, 3]},
        "px": {"mod": "", "ast": ["pushx", ["call", "star_ap"]]},
        "s_all": {"mod": "", "ast": ["seq", [["ref", "a_pop_all"], ["ref", "l_ab"]]]},
        "alt_all": {"mod": "", "ast": ["alt", [["call", "s_all"], ["call", "o_nest"]]]},
        "inl": {"mod": "", "ast": ["opt", ["seq", [["seq", [["ref", "a_pop"], ["opt", ["ref", "a_pop"]]]], ["ref", "l_b"], ["ref", "l_b"]]]]},
    }
}


def run_hypothesis(job) -> dict:
    import gc  # noqa: PLC0415

    gc.enable()
    from hypothesis import HealthCheck, settings  # noqa: PLC0415
    from hypothesis import seed as hseed  # noqa: PLC0415
    from hypothesis import strategies as stg  # noqa: PLC0415
    from hypothesis.stateful import RuleBasedStateMachine, initialize, rule, run_state_machine_as_test  # noqa: PLC0415

    _, ShadowState = make_shadow_classes()
    tb = FIXED_TOOLBOX
    gtext = render_grammar(tb)
    modes = build_modes(gtext, tb)
    runner = HistoryRunner(tb, modes, ShadowState)
    callable_rules = list(tb["rules"]) + list(ATOMS)
    last = {"viol": None}
    counts = {"examples": 0, "steps": 0}
    stats = new_stats()

    class M(RuleBasedStateMachine):
        def __init__(self):
            super().__init__()
            self.text = ""
            self.steps: list = []
            counts["examples"] += 1

        @initialize(text=stg.text(alphabet="ab", max_size=10))
        def init(self, text):
            self.text = text

        def step(self, s):
            self.steps.append(s)
            counts["steps"] += 1
            for mode in modes:
                v = run_capped(runner, mode, self.text, self.steps, stats)
                if v is not None:
                    last["viol"] = make_violation(v, tb, self.text, list(self.steps), mode.name)
                    raise AssertionError(last["viol"]["signature"])

        @rule(r=stg.sampled_from(callable_rules))
        def call(self, r):
            self.step(["call", r])

        @rule()
        def commit(self):
            self.step(["commit"])

        @rule()
        def fail(self):
            self.step(["fail"])

        @rule(k=stg.integers(0, 10))
        def seek(self, k):
            self.step(["seek", k])

    violations = []
    try:
        run_state_machine_as_test(
            hseed(job["hseed"])(M),
            settings=settings(max_examples=job.get("max_examples", 150), stateful_step_count=job.get("step_count", 16), database=None, deadline=None, report_multiple_bugs=False, suppress_health_check=list(HealthCheck)),
        )
    except AssertionError:
        if last["viol"] is None:
            raise
        last["viol"]["found_by"] = f"hypothesis-seed-{job['hseed']}"
        violations.append(last["viol"])
    return {"stats": {"hypothesis": {"machines_run": 1, "examples": counts["examples"], "steps": counts["steps"], "failing_machines": len(violations)}}, "violations": violations}


# ---------------------------------------------------------------------- AST shrinking


def subexprs(e):
    k = e[0]
    if k in ("seq", "alt"):
        return list(e[1])
    if k in ("opt", "star", "plus", "and", "not", "pushx", "rep", "tag"):
        return [e[1]]
    return []


def shrink_ast(e):
    """Yield simpler ASTs: hoist a child, drop a seq/alt member, recurse."""
    k = e[0]
    for c in subexprs(e):
        yield c
    if k in ("seq", "alt") and len(e[1]) > 1:
        for i in range(len(e[1])):
            rest = e[1][:i] + e[1][i + 1 :]
            yield [k, rest] if len(rest) > 1 else rest[0]
    if k in ("seq", "alt"):
        for i, c in enumerate(e[1]):
            for s in shrink_ast(c):
                yield [k, e[1][:i] + [s] + e[1][i + 1 :]]
    elif k in ("opt", "star", "plus", "and", "not", "pushx", "tag"):
        for s in shrink_ast(e[1]):
            if k in ("star", "plus") and not _progress(s):
                continue
            yield [k, s]
    elif k == "rep":
        for s in shrink_ast(e[1]):
            if not _progress(s):
                continue
            yield ["rep", s, *e[2:]]
    elif k == "call":
        pass


def _progress(e):
    if e[0] == "tag":
        return _progress(e[1])
    if e[0] in ("ref", "inl"):
        return e[1] in LITERALS or e[1] in ("a_pop", "a_drop")
    if e[0] == "seq":
        return e[1][0][0] == "ref" and e[1][0][1] in LITERALS
    return False


def reachable(tb, steps):
    seen: set[str] = set()
    todo = [s[1] for s in steps if s[0] == "call" and s[1] in tb["rules"]]

    def walk(e):
        if e[0] == "call":
            todo.append(e[1])
        for c in subexprs(e):
            walk(c)

    while todo:
        r = todo.pop()
        if r in seen or r not in tb["rules"]:
            continue
        seen.add(r)
        walk(tb["rules"][r]["ast"])
    return seen


class Check:
    id = "C05"

    def make_ctx(self, tier):
        return {"tier": tier}

    def tier_params(self, tier):
        if tier == "quick":
            return {"n_jobs": 16 * 20, "budget_s": 400.0}
        return {"n_jobs": -1, "budget_s": float(common.env_int("VERIF_BUDGET_S", 600))}

    def make_job(self, seed, k, tier):
        if tier == "thorough" and k < 16:
            return {"kind": "hyp", "hseed": common.derive_seed("C05-hyp", seed, k) % (2**31)}
        return {"kind": "rand", "seed": common.derive_seed("C05", seed, k), "toolboxes": 6, "histories": 120}

    def run_job(self, job, ctx):
        if job["kind"] == "hyp":
            return run_in_child(run_hypothesis, job, timeout=900.0)
        return run_in_child(run_batch, job, timeout=600.0)

    def check_plan(self, plan, ctx=None):
        return run_in_child(run_plan_child, plan, timeout=60.0)

    def plan_size(self, plan):
        return len(plan["steps"]) * 10 + len(plan["text"]) + sum(len(render_expr(r["ast"])) for r in plan["toolbox"]["rules"].values())

    def shrink_candidates(self, plan):
        steps, text, tb = plan["steps"], plan["text"], plan["toolbox"]
        # 0. prune rules that no step can reach
        keep = reachable(tb, steps)
        if len(keep) < len(tb["rules"]):
            yield {**plan, "toolbox": {**tb, "rules": {k: v for k, v in tb["rules"].items() if k in keep}}}
        # 1. ddmin over steps
        n = len(steps)
        chunk = max(1, n // 2)
        while chunk >= 1:
            for start in range(0, n, chunk):
                cand = steps[:start] + steps[start + chunk :]
                if cand:
                    yield {**plan, "steps": cand}
            if chunk == 1:
                break
            chunk //= 2
        # 2. shorter text
        for cut in (len(text) // 2, len(text) - 1):
            if 0 <= cut < len(text):
                yield {**plan, "text": text[:cut]}
        for i in range(len(text)):
            yield {**plan, "text": text[:i] + text[i + 1 :]}
        # 3. simpler rule bodies
        for name in sorted(keep):
            r = tb["rules"][name]
            for s in shrink_ast(r["ast"]):
                yield {**plan, "toolbox": {**tb, "rules": {**tb["rules"], name: {**r, "ast": s}}}}
            if r["mod"]:
                yield {**plan, "toolbox": {**tb, "rules": {**tb["rules"], name: {**r, "mod": ""}}}}
        if tb.get("trivia"):
            yield {**plan, "toolbox": {**tb, "trivia": None}, "text": text.replace(" ", "").replace("#", "")}
        if text != text.lower():
            yield {**plan, "text": text.lower()}
        # 4. simpler arguments
        for i, s in enumerate(steps):
            if s[0] == "seek" and s[1] > 0:
                yield {**plan, "steps": steps[:i] + [["seek", 0]] + steps[i + 1 :]}

    def describe(self, plan):
        tb = plan["toolbox"]
        used = reachable(tb, plan["steps"])
        rules = "; ".join(f"{n} = {tb['rules'][n]['mod']}{{ {render_expr(tb['rules'][n]['ast'])} }}" for n in tb["rules"] if n in used)
        atoms = sorted({s[1] for s in plan["steps"] if s[0] == "call" and s[1] in ATOMS})
        atoms_s = "; ".join(f"{a} = {{ {ATOMS[a][0]} }}" for a in atoms)
        steps = ", ".join(" ".join(map(str, s)) for s in plan["steps"])
        tr = f" trivia={tb.get('trivia')}" if tb.get("trivia") else ""
        return f"mode={plan.get('mode')}{tr} text={plan['text']!r} steps=[{steps}] rules: {rules} {atoms_s}"

    def vacuity(self, acc):
        out = []
        if acc.get("mode_runs"):
            if not acc.get("events"):
                out.append("vacuous run: the rule taps recorded no primitive event (O1 checked nothing)")
            if not acc.get("structure_checked"):
                out.append("vacuous run: no normal-form rule application was judged (O4 checked nothing)")
            if not acc.get("restores_seen"):
                out.append("vacuous run: the bracket shadow saw no restore() (O3 checked nothing)")
            if acc.get("structure_skipped", 0) > 3 * max(1, acc.get("structure_checked", 0)):
                out.append("vacuous run: more than three quarters of the normal-form rule applications were skipped")
        return out

    def assumptions(self):
        return [
            "O4 judges the backtracking clause only on composite rules in normal form (one operator over rule references), where operand results are observable at rule boundaries in all four modes; operators nested inline inside one rule body are covered by O1-O3 and by the enclosing normal-form rule only",
            "toolbox grammars define no WHITESPACE/COMMENT: implicit trivia inside PEEK_ALL/POP_ALL is unspecified by the statement",
            "out-of-range PEEK[a..b] results are not asserted (pest fails, this port clamps); the unconditional clauses still are",
            "spec_apply and check_structure_O4 in vpest/c05.py are trusted",
        ]

    def evidence(self, acc, tier):
        hyp = acc.get("hypothesis", {})
        trans = acc.get("set_transitions", set())
        return {
            "evaluations": acc.get("mode_runs", 0) + hyp.get("steps", 0),
            "distinct_nontrivial": len(acc.get("set_nontrivial", ())),
            "rule": (
                "a seeded toolbox grammar (27 named atom rules for the seven stack operations + 6-14 composite rules over ? * + | ~ & ! {n..} PUSH(e), "
                "about two thirds in normal form = one operator over rule references, the rest inline nested expressions; silent/atomic modifiers, sub-rule calls) is loaded through the real front end in four execution modes; a seeded history of "
                "call(rule) / commit / fail / seek steps drives ONE live ParserState, every call bracketed by a simulator checkpoint whose later "
                "commit or rollback is injected by the seed. evaluations = (history, mode) executions. A history is non-trivial when some rollback "
                "(injected or performed by a real operator) was effective across an inner committed bracket; distinct = distinct (grammar, text, steps)."
            ),
            "samples": acc.get("sample_histories", [])[:4] or [{"note": "no short non-trivial sample"}],
            "histories": acc.get("histories", 0),
            "toolbox_grammars": acc.get("toolboxes", 0),
            "rule_calls": acc.get("calls", 0),
            "primitive_events_checked_O1": acc.get("events", 0),
            "restores_audited_O3": acc.get("restores_seen", 0),
            "effective_restores": acc.get("effective_restores", 0),
            "normal_form_rule_applications_checked_O4": acc.get("structure_checked", 0),
            "terminal_only_operand_rule_applications_checked_O6": acc.get("terminal_operand_rules_checked", 0),
            "normal_form_rule_applications_skipped": {"count": acc.get("structure_skipped", 0), "why": "observed child calls did not have the operand shape (operand rule inlined by the optimizer, or entry serials lost)"},
            "failed_operand_evaluations_checked": acc.get("failed_operands_checked", 0),
            "executions_that_ran_out_of_frames_in_a_recursive_toolbox": {"count": acc.get("recursion_limit_reached", 0), "note": "RecursionError in a toolbox with the recursive cycle gadget is the ordinary limit of recursive descent (excluded by C07's own wording); counted, not judged. In toolboxes without recursion a RecursionError is a violation of 'never raises'."},
            "executions_abandoned_at_wall_cap": {"count": acc.get("hangs", 0), "samples": acc.get("sample_hangs", [])[:2], "note": "a hang of the code under test is a totality matter (C07), not a C05 verdict"},
            "fault_kinds_fired": {
                "injected rollback of an open enclosing bracket (fail)": acc.get("injected_fail", 0),
                "injected commit of an open enclosing bracket": acc.get("injected_commit", 0),
                "rollback after a failed call": acc.get("call_failed_restored", 0),
            },
            "distinct_primitive_transitions": {"count": len(trans), "measure": "(operation kind, stack depth 0/1/2+, open-bracket depth 0/1/2+, result)", "of_possible": 8 * 3 * 3 * 2},
            "probes": {k: acc.get(k, 0) for k in ("probe_all_failed_midway", "probe_op_on_empty_stack", "probe_failed_operand_had_changed_stack")},
            "hypothesis_machines": hyp,
            "schedule_space": "trivial (single thread); the search is over operation histories and injected bracket outcomes",
            "components": {"real": ["pest front end (scanner, grammar parser)", "optimizer", "interpreter expressions", "code generator + generated modules", "ParserState", "Stack"], "stub": [], "harness_instrumentation": ["atom tap (proxy rule / rebound parse_<atom>)", "ShadowState/ShadowStack subclasses (full-copy bracket shadow, entries carrying push serials)"], "model": "spec_apply (exact transition of the seven operations) + structural clause check_structure_O4 in vpest/c05.py"},
        }
