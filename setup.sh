#!/bin/sh
# Offline setup: verify the interpreter and the two third-party imports the checks need.
set -e
/venv/bin/python -c "import regex" 
/venv/bin/python -c "import hypothesis" 2>/dev/null || /venv/bin/pip install --no-index --find-links /opt/veriftools/wheels hypothesis
/venv/bin/python -c "import hypothesis, regex, sys; sys.path.insert(0, '/repo/src'); import pest; print('setup ok', hypothesis.__version__)"
mkdir -p /verif/out/replays /verif/evidence
