#!/venv/bin/python
"""Confirm and evaluate a seeded change written by an independent sub-agent.

  tools/seeded.py confirm <dir-with-patch.diff+demo.py>      -> tests pass with patch; demo passes without, fails with
  tools/seeded.py detect  <dir> <C09|C05|C15> [--tier quick] -> run the check against a scratch copy with the patch
  tools/seeded.py keep    <dir> <id> <property> "<needs>"     -> copy into /verif/seeded/<id>/ with meta.json
Scratch worktrees live under /tmp and are removed afterwards.
"""
import json, os, shutil, subprocess, sys, tempfile, time, re

PY = "/venv/bin/python"

def sh(cmd, **kw):
    return subprocess.run(cmd, capture_output=True, text=True, **kw)

def worktree():
    d = tempfile.mkdtemp(prefix="vpest-wt-"); os.rmdir(d)
    r = sh(["git", "-C", "/repo", "worktree", "add", "--detach", "-q", d, "HEAD"])
    assert r.returncode == 0, r.stderr
    return d

def rm_worktree(d):
    sh(["git", "-C", "/repo", "worktree", "remove", "--force", d]); shutil.rmtree(d, ignore_errors=True)

def confirm(src):
    patch = os.path.join(src, "patch.diff")
    demo = next((os.path.join(src, f) for f in ("demo.py", "demo_test.py") if os.path.exists(os.path.join(src, f))), None)
    d = worktree()
    out = {}
    try:
        env = dict(os.environ, PYTHONPATH=os.path.join(d, "src"), PYTHONDONTWRITEBYTECODE="1")
        r0 = sh([PY, demo], env=env, cwd=d, timeout=300)
        out["demo_pristine_exit"] = r0.returncode
        r = sh(["git", "-C", d, "apply", patch])
        out["applies"] = r.returncode == 0
        if not out["applies"]:
            out["apply_err"] = r.stderr[-300:]
            return out
        r1 = sh([PY, demo], env=env, cwd=d, timeout=300)
        out["demo_patched_exit"] = r1.returncode
        out["demo_patched_tail"] = (r1.stdout + r1.stderr).strip().splitlines()[-3:]
        t = sh([PY, "-m", "pytest", "-q", "-p", "no:cacheprovider", "--timeout=900", "--continue-on-collection-errors"], env=env, cwd=d, timeout=900)
        out["tests"] = t.stdout.strip().splitlines()[-1] if t.stdout.strip() else t.stderr[-200:]
        out["ok"] = out["demo_pristine_exit"] == 0 and out["demo_patched_exit"] != 0 and "678 passed" in out["tests"] and "failed" not in out["tests"]
    finally:
        rm_worktree(d)
    return out

def detect(src, prop, tier="quick", extra=()):
    patch = os.path.join(src, "patch.diff")
    d = tempfile.mkdtemp(prefix="vpest-scratch-")
    try:
        shutil.copytree("/repo/src", os.path.join(d, "src"), ignore=shutil.ignore_patterns("__pycache__"))
        r = sh(["patch", "-p1", "-s", "-d", d, "-i", patch])
        if r.returncode != 0:
            return {"error": "patch failed " + r.stdout + r.stderr}
        env = dict(os.environ, VERIF_PEST_SRC=os.path.join(d, "src"), VERIF_EVIDENCE_DIR=os.path.join(d, "ev"), VERIF_REPLAY_DIR=os.path.join(d, "replays"))
        t0 = time.time()
        r = sh([PY, "-B", os.environ.get("VERIF_MAIN", "/verif/vpest_main.py"), prop, "--tier", tier, *extra], env=env, timeout=7200)
        sigs = re.findall(r"violation (\S+) \(", r.stdout)
        descr = [l.strip()[:300] for l in r.stdout.splitlines() if l.startswith("    ")][:4]
        return {"exit": r.returncode, "violation_line": ("VIOLATION property=" + prop) in r.stdout, "signatures": sigs, "first": descr, "wall_s": round(time.time() - t0, 1), "tail": r.stdout.strip().splitlines()[-2:]}
    finally:
        shutil.rmtree(d, ignore_errors=True)

def keep(src, sid, prop, needs, ran):
    dst = os.path.join("/verif/seeded", sid)
    os.makedirs(dst, exist_ok=True)
    for f in os.listdir(src):
        if f.endswith((".diff", ".py", ".md")):
            shutil.copy(os.path.join(src, f), os.path.join(dst, f))
    json.dump({"id": sid, "breaks_property": prop, "needs_to_manifest": needs, "what_was_run": ran}, open(os.path.join(dst, "meta.json"), "w"), indent=1)

if __name__ == "__main__":
    cmd = sys.argv[1]
    if cmd == "confirm":
        print(json.dumps(confirm(sys.argv[2]), indent=1))
    elif cmd == "detect":
        print(json.dumps(detect(sys.argv[2], sys.argv[3], *(sys.argv[4:5] or ["quick"]), extra=sys.argv[5:]), indent=1))
    elif cmd == "both":
        c = confirm(sys.argv[2]); print(json.dumps(c)); 
        print(json.dumps(detect(sys.argv[2], sys.argv[3]), indent=1))
